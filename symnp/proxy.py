"""Injection layer: NPProxy (stands in for the module global ``np`` of the odl
modules under test), symbol-aware ``float``/``complex`` builtins, BLAS stubs.

Nothing under /repo is edited: module globals of the *imported* odl modules are
rebound at run time, only inside the process of the check."""
import builtins
import sys
import types

import numpy as np

from . import terms as T
from .scalars import SV, SC, SD, SB, ENG, EngineGap, lift, tolift, is_symscalar
from .sarray import (SymArray, FakeDtype, PartView, real_dtype, wrap, to_object_array, is_sym,
                    sym_array, _guess, _hygiene)


class SymVectorize(object):
    """numpy.vectorize re-stated so that the Python function may return symbols: the function is applied to every
    broadcast element (numpy.frompyfunc does that part for real); the output type is ``otypes`` when set, otherwise
    that of the first output, and all outputs are cast to it -- as numpy.vectorize does."""

    def __init__(self, pyfunc, otypes=None, doc=None, excluded=None, cache=False, signature=None):
        if excluded or signature is not None:
            raise EngineGap('numpy.vectorize with excluded/signature')
        self.pyfunc = pyfunc
        self.otypes = otypes
        self.__doc__ = doc if doc is not None else getattr(pyfunc, '__doc__', None)

    def _ochar(self):
        ot = self.otypes
        if ot is None:
            return None
        if isinstance(ot, str):
            chars = ot
        else:
            chars = ''.join(real_dtype(x).char for x in ot)
        if len(chars) != 1:
            if len(chars) == 0:
                return None
            raise EngineGap('numpy.vectorize with several outputs')
        return chars

    def __call__(self, *args, **kwargs):
        _used('np.vectorize')
        arrs = [to_object_array(a) if is_sym(a) else np.asanyarray(a, dtype=object) for a in args]
        f = (lambda *a: self.pyfunc(*a, **kwargs)) if kwargs else self.pyfunc
        ch = self._ochar()
        if ch is None and any(a.size == 0 for a in arrs):
            raise ValueError('cannot call `vectorize` on size 0 inputs unless `otypes` is set')
        res = np.frompyfunc(f, len(arrs), 1)(*arrs)
        if not isinstance(res, np.ndarray):
            r0 = np.empty((), dtype=object)
            r0[()] = res
            res = r0
        first = res.flat[0] if res.size else None
        if isinstance(first, tuple):
            raise EngineGap('numpy.vectorize with several outputs')
        if ch is None:
            if isinstance(first, SC):
                ch = 'D'
            elif isinstance(first, SD) or (isinstance(first, SV) and first.t.sort != T.Z):
                ch = 'd'
            elif isinstance(first, SV):
                ch = 'l'
            else:
                ch = np.asarray(first).dtype.char
        if any(is_symscalar(v) for v in res.ravel()):
            return wrap(res).astype(np.dtype(ch))
        return np.asanyarray(res, dtype=ch)


class State(object):
    armed = False        # creation functions build symbolic arrays
    int_mode = False     # integer dtypes are symbolic too (Z-mode)
    eps_zero = False     # np.finfo(...).eps/resolution served as 0
    stubs_used = set()


STATE = State()


def _used(name):
    STATE.stubs_used.add(name)


def garbage(shape, dtype, order='C'):
    """Fresh unconstrained symbols: the contents of uninitialised memory."""
    if not isinstance(shape, (tuple, list)):
        shape = (int(shape),)
    return sym_array(ENG.fresh_name('g'), tuple(shape), real_dtype(dtype), 'F' if order == 'F' else 'C')


def _symbolic_dtype(dt, default_float=True):
    """Should an array of this requested dtype be built symbolically?"""
    if isinstance(dt, FakeDtype):
        return True
    if not STATE.armed:
        return False
    if dt is None:
        return default_float
    try:
        k = real_dtype(dt).kind
    except TypeError:
        return False
    return k in 'fc' or (k in 'iu' and STATE.int_mode)


def _const_array(shape, value, dtype, order='C'):
    dt = real_dtype(dtype)
    r = np.empty(shape, dtype=object, order='F' if order == 'F' else 'C')
    if dt.kind == 'c':
        r[...] = SC.coerce(value)
    else:
        r[...] = tolift(dt.type(value).item() if not is_symscalar(value) else value)
    return wrap(r, dt)


def _xlate(v):
    """FakeDtype -> real dtype inside arbitrary (shallow) argument structures."""
    if isinstance(v, FakeDtype):
        return v.dtype
    if isinstance(v, type) and v in (symfloat, symcomplex):
        return v.dtype
    return v


def _claimed(args, kwargs):
    for v in list(args) + list(kwargs.values()):
        if isinstance(v, SymArray) and v._fake is not None:
            return v._fake
        if isinstance(v, (list, tuple)):
            for w in v:
                if isinstance(w, SymArray) and w._fake is not None:
                    return w._fake
    return None


class _SubProxy(object):
    def __init__(self, real, rules):
        self._r = real
        self._rules = rules

    def __getattr__(self, n):
        if n in self._rules:
            return self._rules[n]
        return getattr(self._r, n)


class _UfuncShim(object):
    """Callable replacement of a ufunc without object loop that still exposes the
    ufunc's attributes (nin, nout, types, ...), which ODL inspects."""

    def __init__(self, real, call):
        self._real, self._call = real, call

    def __call__(self, *a, **k):
        return self._call(*a, **k)

    def __getattr__(self, n):
        return getattr(self._real, n)


class NPProxy(object):
    def __init__(self, real=np):
        self._r = real
        self.linalg = _SubProxy(real.linalg, {'norm': self._linalg_norm})
        from .fftmodel import NumpyFFT
        self.fft = NumpyFFT(real.fft)

    def __getattr__(self, n):
        f = getattr(self._r, n)
        if isinstance(f, (type, np.ufunc, types.ModuleType)) or not callable(f):
            return f

        def wrapper(*a, **k):
            symb = any(is_sym(v) for v in a) or any(is_sym(v) for v in k.values())
            want = isinstance(k.get('dtype'), FakeDtype)
            a = tuple(_xlate(v) for v in a)
            if 'dtype' in k:
                k['dtype'] = _xlate(k['dtype'])
            if not symb and not want:
                return f(*a, **k)
            claimed = _claimed(a, k)
            if k.get('dtype') is not None:
                claimed = FakeDtype(k['dtype'])
                k['dtype'] = object
            a = tuple(v.view(np.ndarray) if isinstance(v, SymArray) else v for v in a)
            try:
                r = f(*a, **k)
            except EngineGap:
                raise
            except TypeError as e:
                raise EngineGap('numpy.%s on symbolic data: %s' % (n, e))
            return _rewrap_result(r, claimed, keep0d=n in _SHAPE_ONLY)
        wrapper.__name__ = n
        return wrapper

    # ---------------------------------------------------------- predicates
    def isscalar(self, x):
        return is_symscalar(x) or self._r.isscalar(x)

    def iscomplexobj(self, x):
        if isinstance(x, SymArray):
            return real_dtype(x._fake).kind == 'c'
        if isinstance(x, SC):
            return True
        if isinstance(x, (SV, SD)):
            return False
        return self._r.iscomplexobj(x)

    def isrealobj(self, x):
        return not self.iscomplexobj(x)

    def _pred(self, name, x, sym_value, **k):
        if is_sym(x):
            _used('np.' + name)
            if is_symscalar(x):
                return sym_value
            a = to_object_array(x)
            r = np.full(a.shape, sym_value, dtype=bool)
            for idx in np.ndindex(a.shape):
                if not is_symscalar(a[idx]):
                    r[idx] = getattr(self._r, name)(a[idx])
            return r if r.ndim else bool(r)
        return getattr(self._r, name)(x, **k)

    @property
    def isnan(self):
        return _UfuncShim(self._r.isnan, lambda x, **k: self._pred('isnan', x, False, **k))

    @property
    def isinf(self):
        return _UfuncShim(self._r.isinf, lambda x, **k: self._pred('isinf', x, False, **k))

    @property
    def isfinite(self):
        return _UfuncShim(self._r.isfinite, lambda x, **k: self._pred('isfinite', x, True, **k))

    def isreal(self, x):
        if is_sym(x):
            raise EngineGap('np.isreal on symbolic data')
        return self._r.isreal(x)

    def isclose(self, a, b, rtol=1e-05, atol=1e-08, equal_nan=False):
        if is_sym(a) or is_sym(b):
            _used('np.isclose')
            a = to_object_array(a)
            b = to_object_array(b)
            aa, bb = np.broadcast_arrays(a, b)
            r = np.empty(aa.shape, dtype=bool)
            for idx in np.ndindex(aa.shape):
                u, v = aa[idx], bb[idx]
                r[idx] = bool(abs(u - v) <= atol + rtol * abs(v))
            return r if r.ndim else bool(r)
        return self._r.isclose(a, b, rtol=rtol, atol=atol, equal_nan=equal_nan)

    def allclose(self, a, b, rtol=1e-05, atol=1e-08, equal_nan=False):
        if is_sym(a) or is_sym(b):
            return bool(np.all(self.isclose(a, b, rtol, atol)))
        return self._r.allclose(a, b, rtol=rtol, atol=atol, equal_nan=equal_nan)

    def array_equal(self, a, b, **k):
        if is_sym(a) or is_sym(b):
            a = to_object_array(a)
            b = to_object_array(b)
            if a.shape != b.shape:
                return False
            for u, v in zip(a.ravel(), b.ravel()):
                if not bool(u == v):
                    return False
            return True
        return self._r.array_equal(a, b, **k)

    # ---------------------------------------------------------- dtype plumbing
    def result_type(self, *a):
        return self._r.result_type(*[real_dtype(v._fake) if isinstance(v, SymArray) else
                                     (1.0 if isinstance(v, (SV, SD)) else 1j if isinstance(v, SC) else _xlate(v))
                                     for v in a])

    def can_cast(self, a, b, casting='safe'):
        if isinstance(a, SymArray):
            a = real_dtype(a._fake)
        elif isinstance(a, SC):
            a = np.dtype('complex128')
        elif isinstance(a, (SV, SD)):
            a = np.dtype('int64') if isinstance(a, SV) and a.t.sort == T.Z else np.dtype('float64')
        return self._r.can_cast(_xlate(a), _xlate(b), casting=casting)

    def promote_types(self, a, b):
        return self._r.promote_types(_xlate(a), _xlate(b))

    def issubdtype(self, a, b):
        return self._r.issubdtype(_xlate(a), _xlate(b))

    def finfo(self, dt):
        fi = self._r.finfo(real_dtype(dt) if not isinstance(dt, type) or dt in (symfloat, symcomplex) else dt)
        if STATE.eps_zero:
            _used('np.finfo(eps=0)')
            return types.SimpleNamespace(eps=0.0, resolution=0.0, max=fi.max, min=fi.min, tiny=fi.tiny,
                                         dtype=fi.dtype, precision=fi.precision)
        return fi

    def iinfo(self, dt):
        return self._r.iinfo(real_dtype(dt))

    # ---------------------------------------------------------- creation
    def empty(self, shape, dtype=None, order='C', **kw):
        if _symbolic_dtype(dtype):
            return garbage(shape if isinstance(shape, (tuple, list)) else (shape,), dtype, order)
        return self._r.empty(shape, _xlate(dtype) if dtype is not None else float, order, **kw)

    def empty_like(self, a, dtype=None, order='K', subok=True, shape=None):
        if isinstance(a, SymArray) or _symbolic_dtype(dtype, default_float=False):
            dt = dtype if dtype is not None else a.dtype
            shp = shape if shape is not None else a.shape
            o = order
            if o in ('K', 'A'):
                o = 'F' if (getattr(a, 'flags', None) is not None and a.flags.f_contiguous
                            and not a.flags.c_contiguous) else 'C'
            if _symbolic_dtype(dt) or isinstance(dt, FakeDtype):
                return garbage(shp, dt, o)
            return self._r.empty(shp, dtype=real_dtype(dt), order=o)
        return self._r.empty_like(a, dtype=_xlate(dtype), order=order, subok=subok, shape=shape)

    def _filled(self, shape, value, dtype, order):
        if isinstance(shape, (int, np.integer)):
            shape = (int(shape),)
        return _const_array(tuple(shape), value, dtype if dtype is not None else float, order)

    def zeros(self, shape, dtype=None, order='C', **kw):
        if _symbolic_dtype(dtype):
            return self._filled(shape, 0, dtype, order)
        return self._r.zeros(shape, _xlate(dtype) if dtype is not None else float, order, **kw)

    def ones(self, shape, dtype=None, order='C', **kw):
        if _symbolic_dtype(dtype):
            return self._filled(shape, 1, dtype, order)
        return self._r.ones(shape, _xlate(dtype) if dtype is not None else float, order, **kw)

    def full(self, shape, fill_value, dtype=None, order='C', **kw):
        if is_sym(fill_value) or _symbolic_dtype(dtype, default_float=False):
            if dtype is None:
                dtype = 'complex128' if isinstance(fill_value, SC) else 'float64'
            return self._filled(shape, fill_value, dtype, order)
        return self._r.full(shape, fill_value, _xlate(dtype), order, **kw)

    def zeros_like(self, a, dtype=None, order='K', subok=True, shape=None):
        if isinstance(a, SymArray):
            return self._filled(shape if shape is not None else a.shape, 0, dtype or a.dtype, 'C')
        return self._r.zeros_like(a, dtype=_xlate(dtype), order=order, subok=subok, shape=shape)

    def ones_like(self, a, dtype=None, order='K', subok=True, shape=None):
        if isinstance(a, SymArray):
            return self._filled(shape if shape is not None else a.shape, 1, dtype or a.dtype, 'C')
        return self._r.ones_like(a, dtype=_xlate(dtype), order=order, subok=subok, shape=shape)

    def full_like(self, a, fill_value, dtype=None, order='K', subok=True, shape=None):
        if isinstance(a, SymArray) or is_sym(fill_value):
            return self._filled(shape if shape is not None else a.shape, fill_value, dtype or a.dtype, 'C')
        return self._r.full_like(a, fill_value, dtype=_xlate(dtype), order=order, subok=subok, shape=shape)

    def _coerce(self, inp, dtype, copy, order, ndmin=0):
        """Common path of array/asarray/... for symbolic input or symbolic target dtype."""
        want = real_dtype(dtype) if dtype is not None else None
        if isinstance(inp, SymArray):
            r = inp
            if want is not None and real_dtype(r._fake) != want:
                r = r.astype(want)
            elif copy:
                r = r.copy(order='F' if order == 'F' else 'C' if order == 'C' else 'K')
        else:
            if hasattr(inp, 'asarray') and not isinstance(inp, np.ndarray):
                inp = inp.asarray()
            if isinstance(inp, SymArray):
                return self._coerce(inp, dtype, copy, order, ndmin)
            obj = to_object_array(inp)
            if obj is inp:
                obj = obj.copy()
            kind = (want or _guess(obj)).kind
            r = wrap(_hygiene(obj, kind), want or _guess(obj))
        if order == 'F' and not r.flags.f_contiguous:
            f = np.asfortranarray(r.view(np.ndarray)).view(SymArray)
            f._fake = r._fake
            r = f
        elif order == 'C' and not r.flags.c_contiguous:
            f = np.ascontiguousarray(r.view(np.ndarray)).view(SymArray)
            f._fake = r._fake
            r = f
        if r.ndim < ndmin:
            r = r.reshape((1,) * (ndmin - r.ndim) + r.shape)
        return r

    def array(self, inp, dtype=None, copy=True, order='K', subok=False, ndmin=0, **kw):
        if is_sym(inp) or (isinstance(dtype, FakeDtype)) or \
                (STATE.armed and dtype is not None and _symbolic_dtype(dtype) and not isinstance(inp, str)):
            return self._coerce(inp, dtype, copy, order, ndmin)
        return self._r.array(inp, dtype=_xlate(dtype), copy=copy, order=order, subok=subok, ndmin=ndmin, **kw)

    def asarray(self, inp, dtype=None, order=None, **kw):
        if is_sym(inp) or isinstance(dtype, FakeDtype):
            return self._coerce(inp, dtype, False, order)
        return self._r.asarray(inp, dtype=_xlate(dtype), order=order, **kw)

    asanyarray = asarray

    def ascontiguousarray(self, inp, dtype=None, **kw):
        if is_sym(inp) or isinstance(dtype, FakeDtype):
            return self._coerce(inp, dtype, False, 'C', ndmin=1)
        return self._r.ascontiguousarray(inp, dtype=_xlate(dtype), **kw)

    def asfortranarray(self, inp, dtype=None, **kw):
        if is_sym(inp) or isinstance(dtype, FakeDtype):
            return self._coerce(inp, dtype, False, 'F', ndmin=1)
        return self._r.asfortranarray(inp, dtype=_xlate(dtype), **kw)

    def atleast_1d(self, *arys):
        if any(is_sym(a) for a in arys):
            res = [self._coerce(a, None, False, None, ndmin=1) if is_sym(a) else self._r.atleast_1d(a)
                   for a in arys]
            return res[0] if len(res) == 1 else res
        return self._r.atleast_1d(*arys)

    def fromiter(self, it, dtype, count=-1, **kw):
        if isinstance(dtype, FakeDtype) or _symbolic_dtype(dtype):
            vals = list(it)
            if any(is_sym(v) for v in vals) or isinstance(dtype, FakeDtype):
                return self._coerce(vals, dtype, False, None)
            return self._r.fromiter(vals, _xlate(dtype), count, **kw)
        return self._r.fromiter(it, _xlate(dtype), count, **kw)

    def linspace(self, start, stop, num=50, endpoint=True, retstep=False, dtype=None, axis=0):
        if is_sym(start) or is_sym(stop):
            _used('np.linspace')
            n = int(num)
            div = (n - 1) if endpoint else n
            r = np.empty(n, dtype=object)
            step = (stop - start) / div if div else None
            for i in range(n):
                r[i] = start + i * step if div else start + 0 * stop
            if endpoint and n > 1:
                r[-1] = stop + 0 * start
            r = wrap(_hygiene(r, 'f'), np.dtype('float64'))
            return (r, step) if retstep else r
        return self._r.linspace(start, stop, num, endpoint=endpoint, retstep=retstep, dtype=_xlate(dtype),
                                axis=axis)

    def arange(self, *a, **k):
        if any(is_sym(v) for v in a):
            raise EngineGap('np.arange with symbolic bounds')
        dt = k.get('dtype')
        if isinstance(dt, FakeDtype) or (dt is not None and _symbolic_dtype(dt)):
            k['dtype'] = real_dtype(dt)
            r = self._r.arange(*a, **k)
            return self._coerce(r, dt, False, None)
        if 'dtype' in k:
            k['dtype'] = _xlate(k['dtype'])
        return self._r.arange(*a, **k)

    # ---------------------------------------------------------- C-only leaves
    @property
    def vectorize(self):
        return SymVectorize

    def searchsorted(self, a, v, side='left', sorter=None):
        if is_sym(a) or is_sym(v):
            _used('np.searchsorted')
            a_ = to_object_array(a)
            varr = to_object_array(v)
            out = np.zeros(varr.shape, dtype=np.intp)
            for idx in np.ndindex(varr.shape):
                k = 0
                for ak in a_:
                    c = (ak < varr[idx]) if side == 'left' else (ak <= varr[idx])
                    if bool(c):
                        k += 1
                    else:
                        break
                out[idx] = k
            return out if out.ndim else int(out)
        return self._r.searchsorted(a, v, side=side, sorter=sorter)

    def bincount(self, x, weights=None, minlength=0):
        if is_sym(weights):
            _used('np.bincount')
            if hasattr(weights, 'space'):
                weights = weights.asarray()
            x = self._r.asarray(x)
            n = max(int(x.max()) + 1 if x.size else 0, minlength)
            w = to_object_array(weights)
            out = np.empty(n, dtype=object)
            out[...] = tolift(0.0)
            for i, xi in enumerate(x):
                out[xi] = out[xi] + w[i]
            return wrap(out, getattr(weights, 'dtype', np.dtype('float64')))
        return self._r.bincount(x, weights=weights, minlength=minlength)

    def sinc(self, x):
        if is_sym(x):
            raise EngineGap('np.sinc on symbolic data')
        return self._r.sinc(x)

    def _linalg_norm(self, x, ord=None, axis=None, keepdims=False):
        if is_sym(x):
            _used('np.linalg.norm')
            if axis is not None:
                if not isinstance(axis, (int, np.integer)) or not (ord is None or ord == 2):
                    raise EngineGap('np.linalg.norm with axis tuple / ord on symbolic data')
                arr = to_object_array(x)
                ax = int(axis) % arr.ndim
                moved = np.moveaxis(arr, ax, -1)
                out = np.empty(moved.shape[:-1], dtype=object)
                for idx in np.ndindex(out.shape):
                    out[idx] = self._linalg_norm(wrap(moved[idx].copy(), getattr(x, 'dtype', None)))
                if keepdims:
                    out = np.expand_dims(out, ax)
                return wrap(out, np.dtype('float64')) if out.ndim else out[()]
            if keepdims:
                arr = to_object_array(x)
                out = np.empty((1,) * arr.ndim, dtype=object)
                out[(0,) * arr.ndim] = self._linalg_norm(x, ord)
                return wrap(out, np.dtype('float64'))
            a = to_object_array(x).ravel()
            if ord is None or ord == 2:
                s = tolift(0)
                for v in a:
                    s = s + (v * v.conjugate()).real if isinstance(v, SC) else s + v * v
                return s.sqrt()
            if ord == 1:
                s = tolift(0)
                for v in a:
                    s = s + abs(v)
                return s
            if ord == float('inf'):
                m = abs(a[0])
                for v in a[1:]:
                    w = abs(v)
                    if bool(w > m):
                        m = w
                return m
            s = tolift(0)
            for v in a:
                s = s + abs(v) ** ord
            return s ** (1.0 / ord)
        return self._r.linalg.norm(x, ord=ord, axis=axis, keepdims=keepdims)

    def sum(self, a, *args, **k):
        if is_sym(a) and not args and not {kk for kk in k if kk != 'dtype'}:
            arr = to_object_array(a)
            s = None
            for v in arr.ravel():
                s = v if s is None else s + v
            return s if s is not None else 0.0
        return self.__getattr__('sum')(a, *args, **k)

    def real(self, x):
        if isinstance(x, SymArray):
            return x.real
        if is_symscalar(x):
            return x.real
        return self._r.real(x)

    def imag(self, x):
        if isinstance(x, SymArray):
            return x.imag
        if is_symscalar(x):
            return x.imag
        return self._r.imag(x)

    def ndim(self, x):
        if is_symscalar(x):
            return 0
        return self._r.ndim(x)

    def shape(self, x):
        if is_symscalar(x):
            return ()
        return self._r.shape(x)

    def size(self, x, *a):
        if is_symscalar(x):
            return 1
        return self._r.size(x, *a)

    def may_share_memory(self, a, b, *args):
        return self._r.may_share_memory(a, b, *args)


_SHAPE_ONLY = ('squeeze', 'reshape', 'broadcast_to', 'atleast_1d', 'transpose', 'copy', 'ascontiguousarray')


def _rewrap_result(r, claimed, keep0d=False):
    if isinstance(r, np.ndarray):
        if keep0d and r.ndim == 0 and r.dtype == object:
            r = r.view(SymArray)
            if claimed is not None:
                r._fake = claimed if isinstance(claimed, FakeDtype) else FakeDtype(claimed)
            elif r._fake is None:
                r._fake = FakeDtype(_guess(r))
            return r
        if r.dtype == object and not isinstance(r, SymArray):
            if r.ndim == 0:
                return r[()]
            if r.size and all(isinstance(v, (SB, bool, np.bool_)) for v in r.ravel()[:4]):
                return r
            r = r.view(SymArray)
        if isinstance(r, SymArray):
            if r.ndim == 0:
                return r.view(np.ndarray)[()]
            if claimed is not None:
                r._fake = claimed if isinstance(claimed, FakeDtype) else FakeDtype(claimed)
            elif r._fake is None:
                r._fake = FakeDtype(_guess(r))
        return r
    if isinstance(r, (list, tuple)):
        return type(r)(_rewrap_result(x, claimed) for x in r)
    return r


# -------------------------------------------------------------- builtins
_float = float
_complex = complex


class _FM(type):
    def __instancecheck__(cls, x):
        return isinstance(x, _float)

    def __subclasscheck__(cls, c):
        return issubclass(c, _float)

    def __eq__(cls, o):
        return o is cls or o is _float

    def __ne__(cls, o):
        return not cls.__eq__(o)

    def __hash__(cls):
        return hash(_float)

    def __repr__(cls):
        return "<class 'float'>"


class symfloat(metaclass=_FM):
    dtype = np.dtype('float64')
    __name__ = 'float'

    def __new__(cls, x=0.0):
        if isinstance(x, (SV, SD)):
            return x
        if isinstance(x, SC):
            raise TypeError("can't convert complex to float")
        if isinstance(x, np.ndarray) and x.dtype == object and x.size == 1:
            v = x.ravel()[0]
            if isinstance(v, (SV, SD)):
                return v
        return _float(x)

    fromhex = _float.fromhex


class _CM(type):
    def __instancecheck__(cls, x):
        return isinstance(x, _complex)

    def __subclasscheck__(cls, c):
        return issubclass(c, _complex)

    def __eq__(cls, o):
        return o is cls or o is _complex

    def __ne__(cls, o):
        return not cls.__eq__(o)

    def __hash__(cls):
        return hash(_complex)


class symcomplex(metaclass=_CM):
    dtype = np.dtype('complex128')

    def __new__(cls, x=0.0, im=None):
        if im is None and is_symscalar(x):
            return SC.coerce(x)
        if im is not None and (is_symscalar(x) or is_symscalar(im)):
            return SC(x, im)
        if isinstance(x, np.ndarray) and x.dtype == object and x.size == 1:
            return SC.coerce(x.ravel()[0])
        return _complex(x) if im is None else _complex(x, im)


# ------------------------------------------------------------------ BLAS
_BLAS_NATIVE = (np.dtype('float32'), np.dtype('float64'), np.dtype('complex64'), np.dtype('complex128'))


def _f2py_inout(arr):
    """f2py semantics of an intent(in,out) array argument: an array whose dtype is not one of the four BLAS types
    (longdouble, byte-swapped, integer, ...) is converted, i.e. the routine works on a copy and the caller's array
    is never written"""
    if isinstance(arr, SymArray) and real_dtype(arr._fake) not in _BLAS_NATIVE:
        return arr.copy()
    if isinstance(arr, SymArray) and not real_dtype(arr._fake).isnative:
        return arr.copy()
    return arr


def _first(n, *arrs):
    """BLAS level-1 routines touch the first ``n`` entries only (unit strides, no offsets: the only form ODL uses).
    Returns the arrays restricted to those entries (views), or the arrays themselves when n covers them."""
    if n is None or is_symscalar(n):
        return arrs
    n = int(n)
    if all(getattr(a, 'ndim', 1) == 1 and not getattr(a, '_is_larr', False) and a.shape[0] > n for a in arrs):
        return tuple(a[:n] for a in arrs)
    return arrs


def _blas_axpy(x, y, n=None, a=1.0, offx=0, incx=1, offy=0, incy=1):
    _used('blas.axpy')
    y = _f2py_inout(y)
    xs, ys = _first(n, x, y)
    ys += a * xs
    return y


def _blas_scal(a, x, n=None, offx=0, incx=1):
    _used('blas.scal')
    x = _f2py_inout(x)
    xs, = _first(n, x)
    xs *= a
    return x


def _blas_copy(x, y, n=None, offx=0, incx=1, offy=0, incy=1):
    _used('blas.copy')
    y = _f2py_inout(y)
    xs, ys = _first(n, x, y)
    ys[...] = xs
    return y


def _blas_dot(x, y, **k):
    _used('blas.dot')
    return np.dot(x, y)


def _blas_dotc(x, y, **k):
    _used('blas.dotc')
    return np.vdot(x, y)


def _blas_nrm2(x, n=None, offx=0, incx=1):
    _used('blas.nrm2')
    s = tolift(0)
    for v in np.asarray(x, dtype=object).ravel():
        s = s + ((v * v.conjugate()).real if isinstance(v, SC) else v * v)
    return s.sqrt()


def _blas_asum(x, **k):
    _used('blas.asum')
    s = tolift(0)
    for v in np.asarray(x, dtype=object).ravel():
        s = s + abs(v)
    return s


_BLAS = dict(axpy=_blas_axpy, scal=_blas_scal, copy=_blas_copy, dot=_blas_dot, dotc=_blas_dotc,
             dotu=_blas_dot, nrm2=_blas_nrm2, asum=_blas_asum)
_real_get_blas_funcs = None


def _dispatch(name, real):
    def f(*a, **k):
        if any(is_sym(v) for v in a) or any(is_sym(v) for v in k.values()):
            if name not in _BLAS:
                raise EngineGap('BLAS %s on symbolic data' % name)
            return _BLAS[name](*a, **k)
        return real(*a, **k)
    f.__name__ = name
    return f


def get_blas_funcs(names, arrays=(), dtype=None, **k):
    arrays = tuple(np.empty(0, dtype=real_dtype(a._fake)) if isinstance(a, SymArray) else
                   (np.empty(0, dtype=a._dt) if getattr(a, '_is_larr', False) else a) for a in arrays)
    dtype = _xlate(dtype)
    real = _real_get_blas_funcs(names, arrays, dtype, **k)
    if isinstance(names, str):
        return _dispatch(names, real)
    return [_dispatch(n, r) for n, r in zip(names, real)]


# --------------------------------------------------------------- install
NOPROXY = ('odl.discr.partition', 'odl.discr.grid', 'odl.set.domain', 'odl.util.normalize',
           'odl.util.testutils', 'odl.util.graphics')
PROXY = NPProxy(np)
_installed = {}


def install(extra=(), exclude=()):
    """Rebind ``np``/``float``/``complex`` in every imported odl module (idempotent)."""
    global _real_get_blas_funcs
    import scipy.linalg
    import scipy.linalg.blas
    if _real_get_blas_funcs is None:
        _real_get_blas_funcs = scipy.linalg.blas.get_blas_funcs
        scipy.linalg.blas.get_blas_funcs = get_blas_funcs
        scipy.linalg.get_blas_funcs = get_blas_funcs
    for name, mod in list(sys.modules.items()):
        if mod is None or not (name == 'odl' or name.startswith('odl.')):
            continue
        d = mod.__dict__
        if name in exclude:
            continue
        if 'float' not in d or d['float'] is _float:
            d['float'] = symfloat
        if 'complex' not in d or d['complex'] is _complex:
            d['complex'] = symcomplex
        if d.get('np') is np and (name not in NOPROXY or name in extra):
            d['np'] = PROXY
        if d.get('get_blas_funcs') is _real_get_blas_funcs:
            d['get_blas_funcs'] = get_blas_funcs
        if d.get('numpy') is np and (name not in NOPROXY or name in extra):
            d['numpy'] = PROXY
        if 'pywt' in d and isinstance(d['pywt'], types.ModuleType) and d['pywt'].__name__ == 'pywt':
            from .pywtmodel import FakePyWT
            d['pywt'] = FakePyWT(d['pywt'])
        if 'pyfftw' in d and isinstance(d['pyfftw'], types.ModuleType) and d['pyfftw'].__name__ == 'pyfftw':
            from .fftmodel import FakePyFFTW
            d['pyfftw'] = FakePyFFTW(d['pyfftw'])
    _patch_element_dtype()
    _patch_formatting()
    _patch_special()


_orig_special = {}


def _patch_special():
    """scipy.special leaves used by ODL on data: served as uninterpreted functions / exact rules."""
    import scipy.special as sp
    if _orig_special:
        return

    def elementwise(fn):
        def apply(x, *a, **k):
            arr = to_object_array(x.asarray() if hasattr(x, 'asarray') else x)
            out = np.empty(arr.shape, dtype=object)
            for idx in np.ndindex(arr.shape):
                out[idx] = fn(tolift(arr[idx]))
            return wrap(out, np.dtype('float64')) if out.ndim else out[()]
        return apply

    def lambertw(z, k=0, tol=1e-8):
        if is_sym(z):
            _used('scipy.special.lambertw (uninterpreted W with W(z)*exp(W(z)) = z)')

            def w(v):
                r = SV(T.app('lambertw', (T.to_real(v.t),)))
                ENG.add_axiom(T.eq(T.mul(r.t, T.app('exp', (r.t,))), T.to_real(v.t)))
                return r
            return elementwise(w)(z)
        return _orig_special['lambertw'](z, k, tol)

    def xlogy(x, y, *a, **k):
        if is_sym(x) or is_sym(y):
            _used('scipy.special.xlogy')
            xa, ya = np.broadcast_arrays(to_object_array(x.asarray() if hasattr(x, 'asarray') else x),
                                         to_object_array(y.asarray() if hasattr(y, 'asarray') else y))
            out = np.empty(xa.shape, dtype=object)
            for idx in np.ndindex(xa.shape):
                u = xa[idx] if is_symscalar(xa[idx]) else tolift(xa[idx])
                v = ya[idx] if is_symscalar(ya[idx]) else tolift(ya[idx])
                out[idx] = tolift(0.0) if not bool(u != 0) else u * v.log()
            return wrap(out, np.dtype('float64')) if out.ndim else out[()]
        return _orig_special['xlogy'](x, y, *a, **k)
    _orig_special['lambertw'] = sp.lambertw
    _orig_special['xlogy'] = sp.xlogy
    sp.lambertw = lambertw
    sp.xlogy = xlogy
    for name, mod in list(sys.modules.items()):
        if mod is None or not (name == 'odl' or name.startswith('odl.')):
            continue
        d = mod.__dict__
        if d.get('xlogy') is _orig_special['xlogy']:
            d['xlogy'] = xlogy
        if d.get('lambertw') is _orig_special['lambertw']:
            d['lambertw'] = lambertw


_orig_writable_array = None


def _patch_writable_array():
    """odl.util.utility.writable_array uses the real numpy.asarray, which strips the
    SymArray subclass (and with it the claimed dtype); serve a symbol-aware twin with
    the same contract (yield an array view, write back on exit)."""
    global _orig_writable_array
    import contextlib
    import odl.util.utility as U
    if _orig_writable_array is None:
        _orig_writable_array = U.writable_array

    @contextlib.contextmanager
    def writable_array(obj, **kwargs):
        arr = None
        try:
            if is_sym(obj):
                arr = PROXY.asarray(obj, **kwargs)
            else:
                arr = np.asarray(obj, **{k: _xlate(v) for k, v in kwargs.items()})
            yield arr
        finally:
            if arr is not None:
                obj[:] = arr
    writable_array._symnp = True
    for name, mod in list(sys.modules.items()):
        if mod is None or not (name == 'odl' or name.startswith('odl.')):
            continue
        d = mod.__dict__
        if d.get('writable_array') is _orig_writable_array:
            d['writable_array'] = writable_array


_FMT_NAMES = ('signature_string', 'signature_string_parts', 'array_str', 'repr_string', 'attribute_repr_string',
              'method_repr_string', 'dtype_repr', 'dtype_str')
_fmt_wrapped = {}


def _patch_formatting():
    """repr()/str() of ODL objects that hold symbols (only used in messages) return placeholders."""
    import odl.util.utility as U
    for nm in _FMT_NAMES:
        orig = getattr(U, nm, None)
        if orig is None or getattr(orig, '_symnp', False):
            continue

        def mk(orig, nm):
            def safe(*a, **k):
                try:
                    return orig(*a, **k)
                except EngineGap:
                    if nm == 'signature_string_parts':
                        return ['<symbolic>'], []
                    return '<symbolic>'
            safe._symnp = True
            safe.__name__ = nm
            return safe
        _fmt_wrapped[nm] = (orig, mk(orig, nm))
    for name, mod in list(sys.modules.items()):
        if mod is None or not (name == 'odl' or name.startswith('odl.')):
            continue
        d = mod.__dict__
        for nm, (orig, safe) in _fmt_wrapped.items():
            if d.get(nm) is orig:
                d[nm] = safe


_orig_tensor_dtype = None


def _patch_element_dtype():
    """Elements that hold symbolic data report the claimed dtype *object* of their
    array, so that ``x.dtype.type(sym)`` passes symbols through (class-attribute
    injection on odl.space.base_tensors.Tensor; listed in the evidence)."""
    global _orig_tensor_dtype
    from odl.space.base_tensors import Tensor
    if _orig_tensor_dtype is not None:
        return
    _orig_tensor_dtype = Tensor.dtype

    def dtype(self):
        d = getattr(self, 'data', None)
        if isinstance(d, SymArray) and d._fake is not None:
            return d._fake
        return _orig_tensor_dtype.fget(self)
    Tensor.dtype = property(dtype, doc=_orig_tensor_dtype.__doc__)


def uninstall():
    global _real_get_blas_funcs
    import scipy.linalg
    import scipy.linalg.blas
    for name, mod in list(sys.modules.items()):
        if mod is None or not (name == 'odl' or name.startswith('odl.')):
            continue
        d = mod.__dict__
        if d.get('float') is symfloat:
            del d['float']
        if d.get('complex') is symcomplex:
            del d['complex']
        if d.get('np') is PROXY:
            d['np'] = np
        if d.get('numpy') is PROXY:
            d['numpy'] = np
        if d.get('get_blas_funcs') is get_blas_funcs:
            d['get_blas_funcs'] = _real_get_blas_funcs
    global _orig_tensor_dtype
    if _orig_tensor_dtype is not None:
        from odl.space.base_tensors import Tensor
        Tensor.dtype = _orig_tensor_dtype
        _orig_tensor_dtype = None
    if _real_get_blas_funcs is not None:
        scipy.linalg.blas.get_blas_funcs = _real_get_blas_funcs
        scipy.linalg.get_blas_funcs = _real_get_blas_funcs
        _real_get_blas_funcs = None
