"""Dual-mode harness context.

A harness *case* is a Python function ``case(ctx, **params)`` that builds ODL
objects, obtains its inputs from ``ctx`` and states assertions through ``ctx``.
The same function runs

* symbolically (mode 'sym'): inputs are solver variables, the real ODL code is
  executed on them once per feasible path, and every assertion becomes an SMT
  obligation  path-condition ∧ axioms ∧ ¬goal  (unsat = holds for all values);
* concretely (mode 'conc'): inputs are ordinary floats taken from a solver model;
  used for the concrete shadow validation of the engine on every path and for
  replaying counterexamples on the unpatched code in a fresh process.
"""
import math
import os
import time
import traceback
from fractions import Fraction

import numpy as np
import z3

from . import terms as T
from .scalars import (SV, SC, SD, SB, ENG, EngineGap, Infeasible, PathBudget, lift, tolift,
                      is_symscalar, _is_nonlinear, _isolated)
from .sarray import SymArray, FakeDtype, sym_array, entry_terms, real_dtype, wrap, to_object_array, is_sym
from . import proxy


class Inadmissible(Exception):
    """Concrete input violates an assumption of the harness."""


class Candidate(object):
    """A violation candidate found on one symbolic path."""

    def __init__(self, label, kind, values, detail='', funcs=None):
        self.label, self.kind, self.values, self.detail = label, kind, values, detail
        self.funcs = funcs or {}

    def as_dict(self):
        return dict(label=self.label, kind=self.kind, values=self.values, detail=self.detail,
                    funcs=self.funcs)


def flat(x):
    """ODL element / array / scalar / nested list -> flat object-or-numeric ndarray (C order)."""
    if hasattr(x, 'parts') and hasattr(x, 'space'):           # ProductSpaceElement
        ps = [flat(p) for p in x.parts]
        return np.concatenate(ps) if ps else np.empty(0)
    if hasattr(x, 'tensor') and hasattr(x, 'space'):          # DiscretizedSpaceElement
        return flat(x.tensor)
    if hasattr(x, 'data') and hasattr(x, 'space'):            # Tensor
        return flat(x.data)
    if isinstance(x, SymArray):
        return x.view(np.ndarray).ravel(order='C')
    if isinstance(x, np.ndarray):
        return x.ravel(order='C')
    if is_symscalar(x) or isinstance(x, SB) or np.isscalar(x):
        a = np.empty(1, dtype=object)
        a[0] = x
        return a
    if isinstance(x, (list, tuple)):
        ps = [flat(p) for p in x]
        return np.concatenate(ps) if ps else np.empty(0)
    return flat(np.asarray(x))


def _num(v):
    """z3 numeral -> Fraction (algebraic numbers approximated)."""
    if z3.is_int_value(v):
        return Fraction(v.as_long())
    if z3.is_rational_value(v):
        return Fraction(v.numerator_as_long(), v.denominator_as_long())
    if z3.is_algebraic_value(v):
        a = v.approx(30)
        return Fraction(a.numerator_as_long(), a.denominator_as_long())
    if z3.is_true(v):
        return True
    if z3.is_false(v):
        return False
    raise ValueError('not a numeral: %s' % v)


class FuncTable(object):
    """Finite interpretation of an uninterpreted function taken from a model."""

    def __init__(self, entries, default):
        self.entries = entries      # list of (tuple of floats, float)
        self.default = default

    def __call__(self, *args):
        args = tuple(float(a) for a in args)
        for k, v in self.entries:
            if len(k) == len(args) and all(abs(a - b) <= 1e-9 * max(1.0, abs(a)) for a, b in zip(k, args)):
                return v
        return self.default

    def as_json(self):
        return {'entries': [[list(k), v] for k, v in self.entries], 'default': self.default}

    @staticmethod
    def from_json(d):
        return FuncTable([(tuple(k), v) for k, v in d['entries']], d['default'])


class Settings(object):
    obligation_timeout_ms = 20000
    tol = None              # None: exact goals only; else (abs_tol, box): tolerance fallback
    nice_models = True
    isolate = True          # nonlinear obligations are decided in a forked child (hard timeout)
    strict_definedness = True   # results that depend on an undefined operation (x/0, sqrt(-1), log(0)) are NOT excused:
                                # the poison symbol is a free variable, so the obligation fails and is replayed; harnesses whose
                                # inputs/oracles legitimately divide by symbolic values opt out (excluded obligations are counted)
    shadow = True
    max_shadow = 40
    conc_rtol = 1e-6
    sample_limit = 3
    poly_normal_form = True  # equalities: first try the polynomial normal form modulo the primitives' axioms


def default_uf(*args):
    """Concrete stand-in of an uninterpreted function the solver's model says nothing about."""
    return 0.25 + sum(0.5 ** (i + 1) * math.sin(float(a) + i) for i, a in enumerate(args))


class Ctx(object):
    def __init__(self, mode, values=None, funcs=None, settings=None, canary=False):
        self.mode = mode
        self.values = values or {}
        self.funcs = funcs or {}            # name -> FuncTable (conc mode)
        self.S = settings or Settings()
        self.canary = canary
        self.inputs = {}                    # name -> dict(kind=, shape=, dtype=)
        self.angles = []
        self.records = []                   # (label, lhs terms | lhs floats)
        self.failures = []                  # conc mode: (label, detail)
        self.candidates = []                # sym mode
        self.stats = dict(obligations=0, discharged=0, trivial=0, tolerance=0, inconclusive=0,
                          excluded_undefined=0, facts=0, solver_s=0.0, nontrivial_keys=set())
        self.inconclusive = []
        self.samples = []
        self.uf_decl = {}
        self.expected_exc = None

    sym = property(lambda self: self.mode == 'sym')

    # ------------------------------------------------------------ inputs
    def _declare(self, name, **info):
        if name in self.inputs:
            raise ValueError('duplicate input name %r' % name)
        self.inputs[name] = info

    def real(self, name, lo=None, hi=None, pos=False, nonzero=False, default=0.5):
        self._declare(name, kind='real')
        if self.sym:
            v = SV(T.var(name))
            ENG.sampler.hint(name, lo if lo is not None else (0 if pos else None), hi)
        else:
            v = float(self.values.get(name, default))
        if pos:
            self.assume(v > 0)
        if lo is not None:
            self.assume(v >= lo)
        if hi is not None:
            self.assume(v <= hi)
        if nonzero:
            self.assume(v != 0)
        return v

    def integer(self, name, lo=None, hi=None, default=1):
        self._declare(name, kind='int')
        if self.sym:
            v = SV(T.var(name, T.Z))
        else:
            v = int(self.values.get(name, default))
        if lo is not None:
            self.assume(v >= lo)
        if hi is not None:
            self.assume(v <= hi)
        return v

    def cplx(self, name):
        self._declare(name, kind='complex')
        if self.sym:
            return SC(SV(T.var(name + '_r')), SV(T.var(name + '_i')))
        v = self.values.get(name, [0.5, -0.25])
        return complex(v[0], v[1])

    def angle(self, name, default=0.7, lo=None, hi=None):
        """A real number that the code under test only uses through cos/sin (and bounds checks)."""
        self._declare(name, kind='angle', lo=lo, hi=hi)
        if self.sym:
            v = SV(T.var(name))
            ENG.sampler.hint(name, lo, hi)
        else:
            v = float(self.values.get(name, default if lo is None else (lo + (hi if hi is not None else lo + 1)) / 2))
        if lo is not None:
            self.assume(v >= lo)
        if hi is not None:
            self.assume(v <= hi)
        return v

    def array(self, name, shape, dtype='float64', order='C', garbage=False):
        dt = np.dtype(dtype)
        shape = tuple(shape) if isinstance(shape, (tuple, list)) else (int(shape),)
        self._declare(name, kind='array', shape=list(shape), dtype=str(dt), garbage=garbage)
        if self.sym:
            return sym_array(name, shape, dt, order, garbage=garbage)
        n = int(np.prod(shape)) if shape else 1
        vals = self.values.get(name)
        if vals is None:
            if garbage and dt.kind in 'fc':
                vals = [float('nan')] * (2 * n if dt.kind == 'c' else n)
            else:
                vals = [((7 * i + 3) % 11 - 5) / 2.0 for i in range(2 * n if dt.kind == 'c' else n)]
        if dt.kind == 'c':
            flat_ = np.array([complex(vals[2 * i], vals[2 * i + 1]) for i in range(n)], dtype=dt)
        elif dt.kind in 'iu':
            flat_ = np.array([int(round(v)) for v in vals], dtype=dt)
        else:
            flat_ = np.array(vals, dtype=dt)
        a = flat_.reshape(shape)
        if order == 'F':
            a = np.asfortranarray(a)
        return a

    def element(self, space, name, order='C', garbage=False):
        """An element of ``space`` with arbitrary (symbolic) contents, built directly."""
        if hasattr(space, 'spaces'):                # ProductSpace
            parts = [self.element(s, '%s%d' % (name, i), order, garbage) for i, s in enumerate(space.spaces)]
            return space.element_type(space, parts)
        if hasattr(space, 'tspace'):                # DiscretizedSpace
            t = self.element(space.tspace, name, order, garbage)
            return space.element_type(space, t)
        dt = space.dtype
        arr = self.array(name, space.shape, dt, order, garbage)
        return space.element_type(space, arr)

    def garbage(self, space, name, order='C'):
        return self.element(space, name, order, garbage=True)

    def uf(self, name, arity):
        """Uninterpreted real function of ``arity`` real arguments (a leaf behaviour)."""
        self.uf_decl[name] = arity
        if self.sym:
            def f(*args):
                return SV(T.app(name, [T.to_real(lift(a)) for a in args]))
            return f
        tab = self.funcs.get(name)
        if tab is None:
            return default_uf
        return tab

    def snapshot(self, x):
        """Copy of the current raw contents (pre-call terms / values)."""
        f = flat(x)
        return f.copy()

    # ------------------------------------------------------- assumptions
    def assume(self, cond):
        if isinstance(cond, SB):
            if self.sym:
                ENG.assume(cond.t)
                return
            raise TypeError('symbolic condition in concrete mode')
        if not bool(cond):
            if self.sym:
                raise Infeasible()
            raise Inadmissible('assumption violated')

    def note(self, msg):
        pass

    # -------------------------------------------------------- assertions
    def fact(self, label, ok, detail=''):
        """A concrete (non-symbolic) assertion: identity, type, shape, membership."""
        if isinstance(ok, SB):
            return self.check(label, ok)
        self.stats['facts'] += 1
        if self.canary:
            return
        if not bool(ok):
            if self.sym:
                self._candidate(label, 'fact', None, detail)
            else:
                self.failures.append((label, 'fact fails: ' + detail))

    def eq(self, label, lhs, rhs, tol=None):
        a, b = flat(lhs), flat(rhs)
        if a.shape != b.shape:
            if a.size == 1 or b.size == 1:
                a, b = np.broadcast_arrays(a, b)
            else:
                return self.fact(label, False, 'shape mismatch %s vs %s' % (a.shape, b.shape))
        if self.sym:
            lt, rt = entry_terms(a), entry_terms(b)
            if len(lt) != len(rt):      # real vs complex
                lt, rt = _pair_up(a, b)
            self.records.append((label, lt))
            atol = tol if isinstance(tol, float) else (self.S.tol[0] if self.S.tol else 0.0)
            goals = []
            for u, v in zip(lt, rt):
                if u is v:
                    continue
                if u.op == 'const' and v.op == 'const' and atol and \
                        abs(u.val - v.val) <= atol * max(1, abs(v.val)):
                    continue        # two concrete floats that differ by rounding only
                goals.append(T.not_(T.eq(u, v)))
            self._oblige(label, goals, lt, rt, tol if not isinstance(tol, float) else None)
            self._taint_check(label, lt)
        else:
            av = _to_float_array(a)
            bv = _to_float_array(b)
            self.records.append((label, av))
            ctol = tol[0] if isinstance(tol, tuple) else tol
            if not _close(av, bv, self.S.conc_rtol if ctol is None else max(ctol, self.S.conc_rtol)):
                self.failures.append((label, 'observed %s expected %s' % (_short(av), _short(bv))))

    def _taint_check(self, label, lt):
        """'The previous contents of the output never influence the result': no symbol that stands for
        previous contents of a harness-declared output may occur in the result terms.  (0 * garbage is
        deliberately not folded to 0 by the term layer: in floats it is NaN for non-finite contents.)
        The witness is replayed with NaN-filled previous contents."""
        if not any(t.g for t in lt):
            return
        names = sorted({n for n, _ in T.free_vars([t for t in lt if t.g])})
        gnames = []
        for n, info in self.inputs.items():
            if info.get('garbage'):
                vs = {vn for vn, _ in self._var_names(n, info)}
                if vs & set(names):
                    gnames.append(n)
        if not gnames:
            return
        self.stats['obligations'] += 1
        s = ENG.fresh_solver(self.S.obligation_timeout_ms)
        r = str(s.check())
        if r != 'sat':
            self.stats['inconclusive'] += 1
            self.inconclusive.append('%s: no witness for taint candidate (%s)' % (label, r))
            return
        values, funcs = self._values_from_model(self._nice(s, s.model()))
        for n in gnames:
            values[n] = None          # concrete mode fills NaN
        self.candidates.append(Candidate(label + '|previous-contents', 'taint', values,
                                         'result terms mention the previous contents of %s (multiplied by 0 / '
                                         'subtracted from itself: NaN/inf would propagate)' % ', '.join(gnames),
                                         funcs))

    def eq_any(self, label, lhs, refs):
        """lhs equals (entry-wise, as a whole) at least one of the reference results."""
        a = flat(lhs)
        rs = [flat(r) for r in refs]
        if self.sym:
            lt = entry_terms(a)
            alts = [entry_terms(r) for r in rs]
            self.records.append((label, lt))
            goal = T.and_(*[T.or_(*[T.not_(T.eq(u, v)) for u, v in zip(lt, rt) if u is not v]) for rt in alts])
            self._oblige(label, [goal], lt, alts[0], None, ineq=True)
        else:
            av = _to_float_array(a)
            self.records.append((label, av))
            if not any(_close(av, _to_float_array(r), self.S.conc_rtol) for r in rs):
                self.failures.append((label, 'observed %s matches none of %d references, first %s'
                                      % (_short(av), len(rs), _short(_to_float_array(rs[0])))))

    def le(self, label, lhs, rhs, slack=0.0, box=8):
        """lhs <= rhs (scalars or entry-wise)."""
        a, b = flat(lhs), flat(rhs)
        a, b = np.broadcast_arrays(a, b)
        if self.sym:
            lt, rt = entry_terms(a), entry_terms(b)
            self.records.append((label, lt))
            goals = [T.lt(T.add(v, T.const(slack)), u) for u, v in zip(lt, rt)]
            self._oblige(label, goals, lt, rt, None, ineq=True, box=box)
        else:
            av, bv = _to_float_array(a), _to_float_array(b)
            self.records.append((label, av))
            bad = ~(av <= bv + max(slack, 1e-9) + 1e-7 * np.abs(bv))
            if bad.any():
                self.failures.append((label, 'observed %s > bound %s' % (_short(av), _short(bv))))

    def check(self, label, cond):
        """A condition (SB or bool) must hold on this path."""
        if isinstance(cond, SB):
            if not self.sym:
                raise TypeError('symbolic condition in concrete mode')
            self._oblige(label, [T.not_(cond.t)], [cond.t], [T.boolc(True)], None, ineq=True)
        else:
            self.fact(label, cond)

    def expect_raises(self, label, exc, fn):
        try:
            fn()
        except (Infeasible, PathBudget):
            raise
        except exc:
            self.stats['facts'] += 1
            return True
        except Exception as e:
            self.fact(label, False, 'raised %s instead of %s' % (type(e).__name__, exc))
            return False
        self.fact(label, False, 'did not raise')
        return False

    # ------------------------------------------------------ obligations
    def _oblige(self, label, goals, lt, rt, tol, ineq=False, box=None):
        st = self.stats
        st['obligations'] += 1
        if self.canary and False:
            pass
        if not goals or all(g.op == 'false' for g in goals):
            st['discharged'] += 1
            st['trivial'] += 1
            return
        if len(goals) > 6:
            # canonicalise + deduplicate per-entry obligations (identical up to renaming)
            seen, reps = set(), []
            pcs = [c for c in ENG.pc] + list(ENG.axioms)
            for g in goals:
                k = _canon_key(g, pcs, ())
                if k not in seen:
                    seen.add(k)
                    reps.append(g)
            st.setdefault('deduped_entries', 0)
            st['deduped_entries'] += len(goals) - len(reps)
            goals = reps
        goal = T.or_(*goals)
        if goal.op == 'true':
            # syntactically different constants: definitely violated on this path
            self._solve_candidate(label, goal, 'constant mismatch')
            return
        if not self.S.strict_definedness and ENG.poison:
            names = {n for n, _ in T.free_vars(list(lt) + list(rt))}
            if names & ENG.poison:
                st['excluded_undefined'] += 1
                st['discharged'] += 0
                st['obligations'] -= 1
                return
        key = _canon_key(goal, ENG.pc, ENG.axioms)
        st['nontrivial_keys'].add(key)
        t0 = time.time()
        try:
            if len(self.samples) < self.S.sample_limit:
                s0 = ENG.fresh_solver(self.S.obligation_timeout_ms)
                s0.add(T.to_z3(goal))
                self._sample(label, s0)
            use_tol = (tol if tol is not None else self.S.tol) if not ineq else None
            self._ineq_box = box if ineq else None
            if _is_nonlinear([goal] + list(ENG.pc) + list(ENG.axioms)) and self.S.isolate:
                # z3's own timeout is not reliable on nonlinear goals: decide in a forked child with a hard kill
                res = _isolated(lambda: self._decide(goal, goals, lt, rt, use_tol),
                                3 * self.S.obligation_timeout_ms / 1000.0 + 5)
            else:
                res = self._decide(goal, goals, lt, rt, use_tol)
            r = res['r']
            if res.get('tolerance'):
                st['tolerance'] += 1
            if res.get('cross'):
                st['cross_done'] = st.get('cross_done', 0) + 1
                st['cross_' + res['cross'].lower()] = st.get('cross_' + res['cross'].lower(), 0) + 1
                if res['cross'] == 'DISAGREE':
                    self.inconclusive.append('%s: SOLVER-DISAGREEMENT z3 unsat / cvc5 sat' % label)
            if res.get('normal_form'):
                st['normal_form'] = st.get('normal_form', 0) + 1
            if res.get('linear_box_bound'):
                st['linear_box_bound'] = st.get('linear_box_bound', 0) + 1
            if r == 'unsat':
                st['discharged'] += 1
            elif r == 'sat':
                self._candidate(label, 'ineq' if ineq else 'eq', res['vals'], res['explain'], res['funcs'])
            else:
                st['inconclusive'] += 1
                self.inconclusive.append('%s: solver returned %s' % (label, r))
        finally:
            st['solver_s'] += time.time() - t0
            if os.environ.get('VERIF_SLOW') and time.time() - t0 > float(os.environ['VERIF_SLOW']):
                print('SLOW-OBLIGATION %.1fs %s goals=%d' % (time.time() - t0, label, len(goals)))

    def _decide(self, goal, goals, lt, rt, use_tol):
        """Pose one obligation; returns a plain dict (so that it can cross a process boundary)."""
        out = {'r': 'unknown'}
        if getattr(self, '_ineq_box', None) is None and len(lt) == len(rt) and self.S.poly_normal_form:
            # polynomial normal form modulo the axioms of sqrt / sin / cos (see symnp.poly): the identity holds
            # under the axioms when the difference reduces to the zero polynomial
            from .poly import identical_modulo_axioms
            if identical_modulo_axioms(list(zip(lt, rt))):
                out['r'] = 'unsat'
                out['normal_form'] = True
                return out
        allt = [goal] + list(ENG.pc) + list(ENG.axioms)
        atoms = _norm_atoms(allt)
        if atoms:
            # norm identities: the vector components under a sqrt(sum of squares) are abstracted to fresh
            # variables everywhere (a generalisation: unsat carries over), as are all applications
            memo = {i: z3.Real('atom!%d' % i) for i in atoms}
            s0 = z3.Solver()
            s0.set('timeout', min(10000, self.S.obligation_timeout_ms))
            for c in allt:
                s0.add(T.to_z3(c, memo, abstract_apps=True))
            if str(s0.check()) == 'unsat' and self._cross(s0, out):
                out['r'] = 'unsat'
                out['abstracted_norm_atoms'] = True
                return out
        if len(lt) == len(rt) and T.has_div(list(lt) + list(rt)) and all(t.sort != T.B for t in lt):
            # rational identities: first try with cleared denominators (every denominator is non-zero on
            # this path by the definedness rule), which is a polynomial identity
            try:
                cleared = []
                for u, v in zip(lt, rt):
                    if u is v:
                        continue
                    (n1, d1), (n2, d2) = T.num_den(u), T.num_den(v)
                    cleared.append(T.not_(T.eq(T.mul(n1, d2), T.mul(n2, d1))))
                if cleared and (goal.op == 'or' or len(cleared) == 1) and goal.op != 'and':
                    s2 = ENG.fresh_solver_abs(min(10000, self.S.obligation_timeout_ms))
                    s2.add(T.to_z3_abs(T.or_(*cleared)))
                    if str(s2.check()) == 'unsat' and self._cross(s2, out):
                        out['r'] = 'unsat'
                        out['cleared_denominators'] = True
                        return out
            except ValueError:
                pass
        if T.apps([goal] + list(ENG.pc) + list(ENG.axioms)):
            # uninterpreted applications abstracted to variables: pure NRA, decided by nlsat; unsat carries over
            s1 = ENG.fresh_solver_abs(min(10000, self.S.obligation_timeout_ms))
            s1.add(T.to_z3_abs(goal))
            if str(s1.check()) == 'unsat' and self._cross(s1, out):
                out['r'] = 'unsat'
                out['abstracted_apps'] = True
                return out
        s = ENG.fresh_solver(self.S.obligation_timeout_ms)
        s.add(T.to_z3(goal))
        r = str(s.check())
        model = s.model() if r == 'sat' else None
        if r == 'sat' and use_tol:
            # exact identity refuted: inexact concrete constants?  tolerance form
            if self.S.poly_normal_form:
                # affine differences: the exact maximum over the box is |c0| + box * sum |c_j|
                from .poly import linear_box_bound
                boxed = {vn for n, info in self.inputs.items() for vn, so in self._var_names(n, info) if so == T.R}
                bound = linear_box_bound(list(zip(lt, rt)), boxed, use_tol[1])
                if bound is not None and bound <= use_tol[0]:
                    out['r'] = 'unsat'
                    out['tolerance'] = True
                    out['linear_box_bound'] = True
                    return out
            s = ENG.fresh_solver(self.S.obligation_timeout_ms)
            r, model = self._tolerance_query(s, lt, rt, use_tol)
            if r == 'unknown':
                # entry by entry (never fall back to the exact form: it is already known to be refutable)
                pairs = [(u, v) for u, v in zip(lt, rt) if u is not v]
                worst = 'unsat'
                for u, v in pairs if len(pairs) > 1 else []:
                    s = ENG.fresh_solver(self.S.obligation_timeout_ms)
                    r1, m1 = self._tolerance_query(s, [u], [v], use_tol)
                    if r1 == 'sat':
                        worst, model = 'sat', m1
                        break
                    if r1 != 'unsat':
                        worst = 'unknown'
                r = worst if len(pairs) > 1 else 'unknown'
                if r != 'sat':
                    out['r'] = r
                    if r == 'unsat':
                        out['tolerance'] = True
                    return out
            if r == 'unsat':
                out['tolerance'] = True
        if r == 'sat' and getattr(self, '_ineq_box', None):
            # inequality with slack refuted somewhere: only a violation candidate if it is still refutable
            # with all declared inputs inside the box (floats replay reliably there); otherwise the claim is
            # "holds on the box", counted under tolerance
            s = ENG.fresh_solver(self.S.obligation_timeout_ms)
            s.add(T.to_z3(goal))
            b = self._ineq_box
            for n, info in self.inputs.items():
                for vn, sort in self._var_names(n, info):
                    if sort == T.R:
                        v = z3.Real(vn)
                        s.add(v >= -b, v <= b)
            r = str(s.check())
            model = s.model() if r == 'sat' else None
            if r == 'unsat':
                out['tolerance'] = True
        if r == 'unknown' and len(goals) > 1:
            r, model, s = self._split(goals)
        if r == 'unsat' and s is not None and not self._cross(s, out):
            r = 'unknown'
        out['r'] = r
        if r == 'sat':
            model = self._nice(s, model)
            out['vals'], out['funcs'] = self._values_from_model(model)
            out['explain'] = self._explain(model, lt, rt)
        return out

    def _cross(self, solver, out):
        """Second opinion on a z3 `unsat` (thorough tier): the same assertions, exported as SMT-LIB2, are given to
        cvc5 with a short time limit.  Records 'agree' / 'unknown'; a cvc5 `sat` withdraws the verdict."""
        budget = getattr(self.S, 'cross_check', 0)
        if not budget or self.stats.get('cross_done', 0) + getattr(self, '_cross_local', 0) >= budget:
            return True
        self._cross_local = getattr(self, '_cross_local', 0) + 1
        try:
            import cvc5
            txt = solver.to_smt2()
            slv = cvc5.Solver()
            slv.setOption('tlimit-per', '5000')
            slv.setLogic('ALL')
            prs = cvc5.InputParser(slv)
            prs.setStringInput(cvc5.InputLanguage.SMT_LIB_2_6, txt, 'q')
            sm = prs.getSymbolManager()
            res = 'unknown'
            while True:
                cmd = prs.nextCommand()
                if cmd.isNull():
                    break
                o = str(cmd.invoke(slv, sm)).strip()
                if o in ('sat', 'unsat', 'unknown'):
                    res = o
        except Exception as e:          # parser / option problems: no opinion
            out['cross'] = 'unknown'
            return True
        out['cross'] = {'unsat': 'agree', 'sat': 'DISAGREE'}.get(res, 'unknown')
        return res != 'sat'

    def _split(self, goals):
        worst = 'unsat'
        for g in goals:
            s = ENG.fresh_solver(self.S.obligation_timeout_ms)
            s.add(T.to_z3(g))
            r = str(s.check())
            if r == 'sat':
                return 'sat', s.model(), s
            if r != 'unsat':
                worst = 'unknown'
        return worst, None, None

    def _tolerance_query(self, s, lt, rt, tol):
        eps, box = tol
        zs = []
        for n, info in self.inputs.items():
            for vn, sort in self._var_names(n, info):
                if sort == T.R:
                    v = z3.Real(vn)
                    zs.append(z3.And(v >= -box, v <= box))
        s.add(*zs)
        diffs = []
        e = T.const(eps)
        for u, v in zip(lt, rt):
            if u is v:
                continue
            d = T.sub(u, v)
            diffs.append(T.or_(T.lt(e, d), T.lt(d, T.neg(e))))
        s.add(T.to_z3(T.or_(*diffs)))
        r = str(s.check())
        return r, (s.model() if r == 'sat' else None)

    def _solve_candidate(self, label, goal, detail):
        s = ENG.fresh_solver(self.S.obligation_timeout_ms)
        r = str(s.check())
        if r == 'unsat':
            self.stats['discharged'] += 1
            return
        model = s.model() if r == 'sat' else None
        if model is None:
            self.stats['inconclusive'] += 1
            self.inconclusive.append('%s: path feasibility %s' % (label, r))
            return
        vals, funcs = self._values_from_model(model)
        self._candidate(label, 'eq', vals, detail, funcs)

    def _nice(self, s, model):
        """Prefer a model with small dyadic input values (replays exactly in floats)."""
        if not self.S.nice_models:
            return model
        if sum(int(np.prod(i['shape'])) if i.get('shape') else 1 for i in self.inputs.values()) > 400:
            return model          # large arrays: the plain model is used
        cons = []
        for n, info in self.inputs.items():
            for vn, sort in self._var_names(n, info):
                if sort == T.R:
                    k = z3.Int('nice!' + vn)
                    cons.append(z3.And(z3.Real(vn) * 4 == z3.ToReal(k), k >= -32, k <= 32))
                else:
                    cons.append(z3.And(z3.Int(vn) >= -16, z3.Int(vn) <= 16))
        if not cons:
            return model
        try:
            s2 = z3.Solver()
            s2.set('timeout', 3000)
            s2.add(s.assertions())
            s2.add(*cons)
            if str(s2.check()) == 'sat':
                return s2.model()
        except z3.Z3Exception:
            pass
        return model

    def _var_names(self, name, info):
        k = info['kind']
        if k in ('real', 'angle'):
            return [(name, T.R)]
        if k == 'int':
            return [(name, T.Z)]
        if k == 'complex':
            return [(name + '_r', T.R), (name + '_i', T.R)]
        n = int(np.prod(info['shape'])) if info['shape'] else 1
        dk = np.dtype(info['dtype']).kind
        if dk == 'c':
            out = []
            for i in range(n):
                out += [('%s_%dr' % (name, i), T.R), ('%s_%di' % (name, i), T.R)]
            return out
        return [('%s_%d' % (name, i), T.Z if dk in 'iu' else T.R) for i in range(n)]

    def _values_from_model(self, model):
        vals = {}
        table = {}
        for d in model.decls():
            if d.arity() == 0:
                try:
                    table[d.name()] = float(_num(model[d]))
                except Exception:
                    pass

        def get(vn, sort):
            return table.get(vn, 0.0)
        for n, info in self.inputs.items():
            k = info['kind']
            names = self._var_names(n, info)
            if k == 'angle':
                # the code sees the angle through cos/sin only: rebuild it from their model values
                a = z3.Real(n)
                c = model.eval(T.z3fun('cos', 1)(a), model_completion=True)
                s_ = model.eval(T.z3fun('sin', 1)(a), model_completion=True)
                try:
                    ang = math.atan2(float(_num(s_)), float(_num(c)))
                    lo_, hi_ = info.get('lo'), info.get('hi')
                    if lo_ is not None or hi_ is not None:
                        # the representative of the angle inside its declared range
                        for k_ in range(-8, 9):
                            cand = ang + 2 * math.pi * k_
                            if (lo_ is None or cand >= lo_) and (hi_ is None or cand <= hi_):
                                ang = cand
                                break
                    vals[n] = ang
                except ValueError:
                    vals[n] = get(n, T.R)
            elif k in ('real', 'int'):
                vals[n] = get(*names[0])
            else:
                vals[n] = [get(vn, s) for vn, s in names]
        funcs = {}
        for fname, arity in self.uf_decl.items():
            try:
                fi = model[T.z3fun(fname, arity)]
            except Exception:
                fi = None
            if fi is None:
                continue
            try:
                lst = fi.as_list()
                entries = [(tuple(float(_num(a)) for a in e[:-1]), float(_num(e[-1]))) for e in lst[:-1]]
                default = float(_num(lst[-1]))
                funcs[fname] = FuncTable(entries, default).as_json()
            except Exception:
                continue
        return vals, funcs

    def _values_from_sample(self, k):
        """input values at pool point ``k`` of the branch sampler (a robust witness of the path condition)"""
        vals = {}
        sm = ENG.sampler
        for n, info in self.inputs.items():
            names = self._var_names(n, info)
            if info['kind'] in ('real', 'int', 'angle'):
                vals[n] = sm.value_of(k, *names[0])
            else:
                vals[n] = [sm.value_of(k, vn, s_) for vn, s_ in names]
        return vals

    def _explain(self, model, lt, rt):
        out = []
        for i, (u, v) in enumerate(zip(lt, rt)):
            if u is v:
                continue
            try:
                a = _num(model.eval(T.to_z3(u), model_completion=True))
                b = _num(model.eval(T.to_z3(v), model_completion=True))
            except Exception:
                continue
            if a != b:
                out.append('entry %d: code %s, reference %s' % (i, _fmt(a), _fmt(b)))
            if len(out) >= 3:
                break
        return '; '.join(out)

    def _candidate(self, label, kind, values, detail='', funcs=None):
        if values is None:
            # witness of the path condition
            s = ENG.fresh_solver(self.S.obligation_timeout_ms)
            r = str(s.check())
            if r != 'sat':
                self.stats['inconclusive'] += 1
                self.inconclusive.append('%s: no witness for failing fact (%s)' % (label, r))
                return
            values, funcs = self._values_from_model(self._nice(s, s.model()))
        self.candidates.append(Candidate(label, kind, values, detail, funcs))

    def _sample(self, label, s):
        try:
            txt = s.to_smt2()
        except Exception:
            return
        if len(txt) > 6000:
            txt = txt[:6000] + '\n; ... truncated ...'
        self.samples.append({'label': label, 'smt2': txt})


# ---------------------------------------------------------------- helpers
def _norm_atoms(roots):
    """ids of the non-atomic terms x_i of every sqrt(c_1 x_1^2 + ... + c_n x_n^2) application"""
    out = {}
    for a in T.apps(roots):
        if a.val != 'sqrt':
            continue
        stack = [a.args[0]]
        found = []
        ok = True
        while stack:
            x = stack.pop()
            if x.op == 'add':
                stack.extend(x.args)
            elif x.op == 'mul' and x.args[0] is x.args[1]:
                found.append(x.args[0])
            elif x.op == 'mul' and x.args[0].op == 'const':
                stack.append(x.args[1])
            elif x.op == 'mul' and x.args[1].op == 'const':
                stack.append(x.args[0])
            elif x.op == 'const':
                pass
            else:
                ok = False
                break
        if ok:
            for x in found:
                if x.op not in ('var', 'const') and T.size([x]) > 3:
                    out[x.id] = x
    return out


def _pair_up(a, b):
    lt, rt = [], []
    for u, v in zip(a, b):
        cu, cv = SC.coerce(u), SC.coerce(v)
        lt += [cu.re.t, cu.im.t]
        rt += [cv.re.t, cv.im.t]
    return lt, rt


def _to_float_array(a):
    a = np.asarray(a)
    if a.dtype == object:
        a = np.array([complex(v) if isinstance(v, (complex, np.complexfloating)) else float(v) for v in a.ravel()])
    if a.dtype.kind == 'c':
        return np.concatenate([a.real.ravel()[:, None], a.imag.ravel()[:, None]], axis=1).ravel().astype(float)
    return a.astype(float).ravel()


def _close(a, b, rtol):
    if a.shape != b.shape:
        if a.size == 2 * b.size:
            b = np.concatenate([b[:, None], np.zeros_like(b)[:, None]], axis=1).ravel()
        elif b.size == 2 * a.size:
            a = np.concatenate([a[:, None], np.zeros_like(a)[:, None]], axis=1).ravel()
        else:
            return False
    if not (np.all(np.isfinite(a)) and np.all(np.isfinite(b))):
        return bool(np.all((a == b) | (np.isnan(a) & np.isnan(b))))
    scale = max(1.0, float(np.max(np.abs(b))) if b.size else 1.0)
    return bool(np.all(np.abs(a - b) <= rtol * scale))


def _short(a):
    return np.array2string(np.asarray(a), precision=6, threshold=8)


def _fmt(q):
    if isinstance(q, Fraction):
        return str(q) if q.denominator < 1000 else '%.9g' % float(q)
    return str(q)


def _canon_key(goal, pc, axioms):
    """Alpha-renamed canonical serialisation of an obligation DAG: variables are
    numbered by first occurrence (goal first, then path condition and axioms),
    shared nodes are emitted once and referenced by index.  Equal keys => the two
    obligations are identical up to renaming of variables, hence equisatisfiable."""
    names = {}
    index = {}
    parts = []
    for t in T.postorder([goal] + list(pc) + list(axioms)):
        kids = tuple(index[x.id] for x in t.args)
        if t.op == 'var':
            if t.val not in names:
                names[t.val] = len(names)
            item = ('v', names[t.val], t.sort)
        elif t.op == 'const':
            item = ('c', t.val, t.sort)
        elif t.op == 'app':
            item = ('a', t.val, kids)
        else:
            item = (t.op, kids)
        index[t.id] = len(parts)
        parts.append(item)
    return hash(tuple(parts))
