"""Driver: configuration pool, candidate replay, known findings, evidence, exit codes."""
import argparse
import fnmatch
import re
import hashlib
import importlib
import json
import multiprocessing as mp
import os
import subprocess
import sys
import time
import traceback

VERIF = os.path.dirname(os.path.dirname(os.path.abspath(__file__)))
REPO = os.environ.get('VERIF_REPO', '/repo')


def _import_odl():
    if REPO not in sys.path:
        sys.path.insert(0, REPO)
    import odl          # noqa
    assert os.path.abspath(odl.__file__).startswith(os.path.abspath(REPO)), odl.__file__
    return odl


# ====================================================================== worker
def explore_config(modname, cfg_id, params, tier, canary=False, want_funcs=False):
    """Symbolically execute one configuration on every path.  Runs in a worker."""
    _import_odl()
    from . import terms as T
    from .scalars import ENG, EngineGap, Infeasible, PathBudget
    from . import proxy
    from .ctx import Ctx, Settings, Inadmissible
    mod = importlib.import_module(modname)
    T.reset()
    ENG.reset_stats()
    S = Settings()
    for k, v in getattr(mod, 'SETTINGS', {}).items():
        setattr(S, k, v)
    if tier == 'thorough':
        import zlib
        # every fourth configuration (by hash of its id): two z3 unsat verdicts are re-checked by cvc5
        S.cross_check = 2 if zlib.crc32(cfg_id.encode()) % 4 == 0 else 0
    for k, v in getattr(mod, 'SETTINGS_' + tier.upper(), {}).items():
        setattr(S, k, v)
    for k, v in params.get('_settings', {}).items():
        setattr(S, k, v)
    ENG.max_paths = getattr(S, 'max_paths', 400 if tier == 'quick' else 4000)
    ENG.merge_abs = getattr(S, 'merge_abs', False)
    T.SNAP = getattr(S, 'snap_consts', 0)
    T.FOLD = getattr(S, 'fold_ground_apps', False)
    ENG.skip_undefined = getattr(S, 'skip_undefined', False)
    ENG.hash_tokens = getattr(S, 'hash_tokens', False)
    proxy.STATE.int_mode = getattr(S, 'int_mode', False)
    proxy.STATE.eps_zero = getattr(S, 'eps_zero', False)
    proxy.STATE.stubs_used = set()
    proxy.install(extra=getattr(mod, 'PROXY_EXTRA', ()), exclude=getattr(mod, 'PROXY_EXCLUDE', ()))
    cparams = {k: v for k, v in params.items() if not k.startswith('_')}

    res = dict(cfg=cfg_id, params=cparams, paths=0, obligations=0, discharged=0, trivial=0, tolerance=0,
               inconclusive=[], excluded_undefined=0, facts=0, solver_s=0.0, candidates=[], gaps=[],
               shadow_ok=0, shadow_skipped=0, shadow_mismatch=[], samples=[], funcs=[], keys=[],
               infeasible=0, exceptions_excluded=0, stubs=[], budget_exceeded=False, canary=canary,
               unknown_branches=0, branch_queries=0)
    funcs_seen = set()
    state = {'first': True}
    t_cfg = time.time()

    def body():
        ctx = Ctx('sym', settings=S, canary=canary)
        ctx.gap = None
        ctx.exception = None
        prof = None
        if want_funcs and state['first']:
            state['first'] = False
            repo = os.path.abspath(REPO) + os.sep

            def prof(frame, event, arg):
                if event == 'call':
                    co = frame.f_code
                    fn = co.co_filename
                    if fn.startswith(repo):
                        funcs_seen.add('%s:%s' % (fn[len(repo):], co.co_qualname))
            sys.setprofile(prof)
        proxy.STATE.armed = True
        try:
            mod.case(ctx, **cparams)
        except (Infeasible, PathBudget):
            raise
        except EngineGap as e:
            ctx.gap = str(e)
        except Exception as e:
            ctx.exception = (type(e).__name__, str(e)[:300], traceback.format_exc(limit=-4))
        finally:
            proxy.STATE.armed = False
            if prof is not None:
                sys.setprofile(None)
        return ctx

    try:
        for ctx in ENG.explore(body):
            res['paths'] += 1
            if ctx.gap is not None:
                res['gaps'].append(ctx.gap)
            elif ctx.exception is not None:
                if ENG.poison:
                    res['exceptions_excluded'] += 1
                else:
                    ctx._candidate('<exception>', 'raises', None,
                                   '%s: %s' % (ctx.exception[0], ctx.exception[1]))
                    if ctx.candidates and ctx.candidates[-1].kind == 'raises':
                        ctx.candidates[-1].tb = ctx.exception[2]
            st = ctx.stats
            for k in ('obligations', 'discharged', 'trivial', 'tolerance', 'excluded_undefined', 'facts'):
                res[k] += st[k]
            for k in ('normal_form', 'linear_box_bound', 'cross_done', 'cross_agree', 'cross_unknown', 'cross_disagree'):
                res[k] = res.get(k, 0) + st.get(k, 0)
            res['solver_s'] += st['solver_s']
            res['inconclusive'] += ctx.inconclusive
            res['keys'] += list(st['nontrivial_keys'])
            if len(res['samples']) < S.sample_limit:
                res['samples'] += ctx.samples[:S.sample_limit - len(res['samples'])]
            # ---- candidates: try to reproduce concretely in-process (cheap filter)
            for c in ctx.candidates:
                d = c.as_dict()
                d['tb'] = getattr(c, 'tb', '')
                d['reproduced'], d['conc_detail'] = _concrete_run(mod, cparams, c.values, c.funcs, S, canary)
                if not d['reproduced'] and c.kind in ('eq', 'ineq') and not canary and c.values is not None \
                        and not ctx.uf_decl:
                    # the solver's witness may owe the violation to symbols the concrete run cannot set (contents
                    # left behind by a library that destroys a buffer); a failure of the same assertion at the
                    # harness' generic default inputs is a reproduction on the real code all the same
                    ok2, det2 = _concrete_run(mod, cparams, {}, {}, S, canary)
                    if ok2 and (c.label + ':') in det2:
                        d['reproduced'], d['conc_detail'], d['values'] = True, det2, {}
                res['candidates'].append(d)
            # ---- concrete shadow validation of the engine on this path
            if S.shadow and not canary and ctx.gap is None and ctx.exception is None \
                    and res['shadow_ok'] + res['shadow_skipped'] < S.max_shadow and not ctx.candidates:
                _shadow_validate(mod, cparams, ctx, S, res)
    except PathBudget:
        res['budget_exceeded'] = True
    res['wall_s'] = time.time() - t_cfg
    res['infeasible'] = ENG.ninfeasible
    res['unknown_branches'] = ENG.unknown_branches
    res['branch_queries'] = ENG.nqueries
    res['sampler_witnesses'] = ENG.sampler_hits
    res['skipped_undefined'] = ENG.skipped_undefined
    res['solver_s'] += ENG.tsolver
    res['funcs'] = sorted(funcs_seen)
    res['stubs'] = sorted(proxy.STATE.stubs_used)
    res['keys'] = list(set(res['keys']))
    return res


def _concrete_run(mod, cparams, values, funcs, S, canary=False):
    """Run the case concretely (engine disarmed).  Returns (failed?, detail)."""
    from .ctx import Ctx, Inadmissible, FuncTable
    from .scalars import EngineGap
    ctx = Ctx('conc', values=values, funcs={k: FuncTable.from_json(v) for k, v in (funcs or {}).items()},
              settings=S, canary=canary)
    try:
        import warnings
        with warnings.catch_warnings():
            warnings.simplefilter('ignore')
            mod.case(ctx, **cparams)
    except Inadmissible as e:
        # an assumption placed AFTER the failing assertions is not retroactive: what failed before it was reached
        # failed on admissible input
        if ctx.failures:
            return True, '; '.join('%s: %s' % f for f in ctx.failures[:3])
        return False, 'inadmissible: %s' % e
    except EngineGap as e:
        return False, 'gap: %s' % e
    except Exception as e:
        return True, '<exception> %s: %s' % (type(e).__name__, str(e)[:200])
    if ctx.failures:
        return True, '; '.join('%s: %s' % f for f in ctx.failures[:3])
    return False, 'no failure'


def _shadow_validate(mod, cparams, sctx, S, res):
    """Engine soundness guard: the unpatched arithmetic on ordinary floats at a
    witness of this path must give the values of the symbolic result terms."""
    import numpy as np
    from . import terms as T
    from .scalars import ENG
    from .ctx import Ctx, Inadmissible, FuncTable
    k = ENG.sampler.current(ENG.pc) if ENG.use_sampler and not sctx.uf_decl else None
    if k is not None:
        # a pool point of the branch sampler that satisfies the path condition with a margin
        values, funcs = sctx._values_from_sample(k), {}
    else:
        s = ENG.solver
        if str(s.check()) != 'sat':
            res['shadow_skipped'] += 1
            return
        model = sctx._nice(s, s.model())
        values, funcs = sctx._values_from_model(model)
    cctx = Ctx('conc', values=values, funcs={k: FuncTable.from_json(v) for k, v in funcs.items()}, settings=S)
    try:
        import warnings
        with warnings.catch_warnings():
            warnings.simplefilter('ignore')
            mod.case(cctx, **cparams)
    except Exception as e:
        if os.environ.get('VERIF_DEBUG_SHADOW'):
            import traceback
            traceback.print_exc()
            print('shadow values', values, file=sys.stderr)
        res['shadow_skipped'] += 1
        return
    if cctx.failures:
        # a concrete *fact* (memory sharing, dtypes, object identity: things the engine's arrays do not exhibit) that
        # holds for the symbolic run fails in the concrete run of the real code at a witness of this path: that is a
        # failing run of the real code, reported like any other candidate (fresh-process replay follows).  Numeric
        # assertions are not taken from here (they are the solver's business, and on paths with undefined arithmetic
        # the concrete values are NaN by the definedness rule).
        seen = {c['label'] for c in res['candidates']}
        for label, detail in cctx.failures:
            if not str(detail).startswith('fact fails') or ENG.poison:
                continue
            if label not in seen and len(res['candidates']) < 40:
                seen.add(label)
                res['candidates'].append(dict(label=label, kind='fact', values=values, funcs=funcs,
                                              detail='concrete run: ' + str(detail)[:200], tb='', reproduced=True,
                                              conc_detail='%s: %s' % (label, str(detail)[:200])))
        res['shadow_skipped'] += 1
        return
    if len(cctx.records) != len(sctx.records) or any(a[0] != b[0] for a, b in zip(cctx.records, sctx.records)):
        if os.environ.get('VERIF_DEBUG_SHADOW'):
            print('shadow: records differ', [a[0] for a in cctx.records], [a[0] for a in sctx.records], file=sys.stderr)
        res['shadow_skipped'] += 1
        return
    env = {}
    for n, info in sctx.inputs.items():
        names = sctx._var_names(n, info)
        v = values[n]
        if isinstance(v, list):
            for (vn, _), x in zip(names, v):
                env[vn] = x
        else:
            env[names[0][0]] = v
    ufuns = {k: FuncTable.from_json(v) for k, v in funcs.items()}
    for k in cctx.uf_decl:
        if k not in ufuns:          # not constrained on this path: the stand-in the concrete run has used (Ctx.uf)
            from .ctx import default_uf
            ufuns[k] = default_uf
    bad = None
    compared = 0
    for (label, terms_), (_, vals) in zip(sctx.records, cctx.records):
        if not terms_:
            continue
        fv = {n for n, _ in T.free_vars(terms_)}
        if any(n not in env for n in fv):
            if os.environ.get('VERIF_DEBUG_SHADOW'):
                print('shadow: free vars not in env', [n for n in fv if n not in env], sorted(env), file=sys.stderr)
            continue        # depends on garbage / poison / auxiliary symbols
        try:
            ev = T.evaluate(terms_, env, ufuns)
        except Exception:
            if os.environ.get('VERIF_DEBUG_SHADOW'):
                import traceback
                traceback.print_exc()
            continue
        ev = np.array([float(x) for x in ev])
        vals = np.asarray(vals, dtype=float)
        if ev.shape != vals.shape:
            continue
        compared += 1
        ok = np.all(np.isfinite(ev) & np.isfinite(vals) & (np.abs(ev - vals) <= 1e-7 * np.maximum(1.0, np.abs(vals)))
                    | (~np.isfinite(ev) & ~np.isfinite(vals)))
        if not ok:
            bad = '%s: symbolic %s vs concrete %s at %s' % (label, ev[:4], vals[:4], values)
            break
    if bad:
        res['shadow_mismatch'].append(bad)
    elif compared:
        res['shadow_ok'] += 1
    else:
        res['shadow_skipped'] += 1


# ======================================================================== pool
def _kill_tree(p):
    """Kill a pool worker together with the solver children it has forked (the worker leads its own process group);
    an orphaned solver child would otherwise run on and keep the parent's pipes open."""
    import signal
    try:
        os.killpg(p.pid, signal.SIGKILL)
    except (ProcessLookupError, PermissionError, OSError):
        pass
    try:
        p.kill()
    except Exception:
        pass


def _worker_main(conn):
    import signal
    signal.signal(signal.SIGINT, signal.SIG_IGN)
    try:
        os.setpgid(0, 0)            # own process group: see _kill_tree
    except OSError:
        pass
    try:
        import resource
        lim = int(os.environ.get('VERIF_WORKER_MEM_GB', '6')) << 30
        resource.setrlimit(resource.RLIMIT_AS, (lim, lim))
    except Exception:
        pass
    while True:
        try:
            task = conn.recv()
        except EOFError:
            return
        if task is None:
            return
        try:
            out = explore_config(*task)
            conn.send(('ok', out))
        except MemoryError:
            conn.send(('err', 'MemoryError'))
        except BaseException as e:      # noqa
            conn.send(('err', '%s: %s\n%s' % (type(e).__name__, e, traceback.format_exc(limit=-6))))


class Pool(object):
    def __init__(self, nproc):
        self.ctx = mp.get_context(os.environ.get('VERIF_MP', 'spawn'))
        self.nproc = nproc
        self.workers = []

    def _spawn(self):
        a, b = self.ctx.Pipe()
        p = self.ctx.Process(target=_worker_main, args=(b,), daemon=True)
        p.start()
        b.close()
        return [p, a, None, 0.0]      # process, conn, task index, start time

    def run(self, tasks, timeout_s, progress=None):
        """tasks: list of argument tuples for explore_config.  Returns list of (status, payload)."""
        results = [None] * len(tasks)
        pending = list(range(len(tasks)))[::-1]
        workers = [self._spawn() for _ in range(min(self.nproc, max(1, len(tasks))))]
        done = 0
        try:
            while done < len(tasks):
                progressed = False
                for w in workers:
                    p, conn, ti, t0 = w
                    if ti is None:
                        if pending:
                            i = pending.pop()
                            conn.send(tasks[i])
                            w[2], w[3] = i, time.time()
                            progressed = True
                        continue
                    if conn.poll(0):
                        try:
                            results[ti] = conn.recv()
                        except (EOFError, OSError):
                            results[ti] = ('err', 'worker died')
                            _kill_tree(p)
                            w[:] = self._spawn()
                        else:
                            w[2] = None
                        done += 1
                        progressed = True
                        if progress:
                            progress(done, len(tasks))
                    elif not p.is_alive():
                        results[ti] = ('err', 'worker died (memory limit or crash)')
                        w[:] = self._spawn()
                        done += 1
                        progressed = True
                    elif time.time() - t0 > timeout_s:
                        _kill_tree(p)
                        p.join()
                        results[ti] = ('timeout', 'configuration exceeded %ds' % timeout_s)
                        w[:] = self._spawn()
                        done += 1
                        progressed = True
                if not progressed:
                    time.sleep(0.01)
        finally:
            for p, conn, _, _ in workers:
                try:
                    conn.send(None)
                except Exception:
                    pass
            for p, conn, _, _ in workers:
                p.join(timeout=1)
                if p.is_alive():
                    _kill_tree(p)
        return results


# ====================================================================== driver
def load_known(prop):
    path = os.path.join(VERIF, 'known_findings.json')
    if not os.path.exists(path):
        return []
    data = json.load(open(path))
    return [f for f in data.get('findings', []) if f['property'] == prop]


def match_known(known, cfg_id, label):
    for f in known:
        m = f.get('match', {})
        if re.fullmatch(m.get('config', '.*'), cfg_id) and re.fullmatch(m.get('label', '.*'), label):
            return f
    return None


def write_replay(prop, modname, cfg_id, params, cand):
    d = os.path.join(VERIF, 'replays')
    os.makedirs(d, exist_ok=True)
    payload = dict(property=prop, harness=modname, config=cfg_id, params=params, label=cand['label'],
                   kind=cand['kind'], values=cand['values'], funcs=cand.get('funcs', {}),
                   detail=cand.get('detail', ''), observed=cand.get('conc_detail', ''))
    blob = json.dumps(payload, sort_keys=True, indent=1)
    h = hashlib.sha1(blob.encode()).hexdigest()[:12]
    path = os.path.join(d, '%s-%s.json' % (prop, h))
    with open(path, 'w') as f:
        f.write(blob)
    return path


def replay(path, quiet=False):
    """Fresh-process side of a replay: the *unpatched* code, public API, ordinary floats."""
    data = json.load(open(path))
    _import_odl()
    from .ctx import Ctx, Settings, Inadmissible, FuncTable
    mod = importlib.import_module(data['harness'])
    S = Settings()
    for k, v in getattr(mod, 'SETTINGS', {}).items():
        setattr(S, k, v)
    ctx = Ctx('conc', values=data['values'],
              funcs={k: FuncTable.from_json(v) for k, v in data.get('funcs', {}).items()}, settings=S)
    failed, detail = False, ''
    try:
        import warnings
        with warnings.catch_warnings():
            warnings.simplefilter('ignore')
            mod.case(ctx, **data['params'])
    except Inadmissible as e:
        if ctx.failures:        # failed before the (later, not retroactive) assumption was reached
            failed = True
            detail = '; '.join('%s: %s' % f for f in ctx.failures[:4])
        else:
            detail = 'inadmissible input: %s' % e
    except Exception as e:
        failed, detail = True, '<exception> %s: %s' % (type(e).__name__, str(e)[:300])
    else:
        if ctx.failures:
            failed = True
            detail = '; '.join('%s: %s' % f for f in ctx.failures[:4])
    if not quiet:
        print('replay %s config=%s label=%s' % (data['property'], data['config'], data['label']))
        print('  inputs: %s' % json.dumps(data['values'])[:600])
        print('  result: %s' % ('REPRODUCED — ' + detail if failed else 'not reproduced (%s)' % (detail or 'all assertions hold')))
    return failed, detail, data


def fresh_replay(prop, path):
    cmd = [sys.executable, '-m', 'symnp.main', prop, '--replay', path, '--quiet']
    env = dict(os.environ)
    r = subprocess.run(cmd, capture_output=True, text=True, env=env, timeout=600, cwd=VERIF)
    return r.returncode == 1, (r.stdout + r.stderr)[-600:]


def main(argv=None):
    ap = argparse.ArgumentParser()
    ap.add_argument('prop')
    ap.add_argument('--tier', default=os.environ.get('VERIF_TIER', 'quick'), choices=['quick', 'thorough'])
    ap.add_argument('--replay')
    ap.add_argument('--quiet', action='store_true')
    ap.add_argument('--only', help='fnmatch filter on configuration ids (debugging)')
    ap.add_argument('--jobs', type=int, default=int(os.environ.get('VERIF_JOBS', '0')))
    ap.add_argument('--serial', action='store_true', help='run configurations in-process (debugging)')
    ap.add_argument('--no-evidence', action='store_true')
    ap.add_argument('-v', '--verbose', action='store_true')
    a = ap.parse_args(argv)
    prop = a.prop.upper()
    modname = 'harness.%s' % prop.lower()
    if VERIF not in sys.path:
        sys.path.insert(0, VERIF)

    if a.replay:
        failed, detail, data = replay(a.replay, quiet=a.quiet)
        if failed:
            print('VIOLATION property=%s replay=%s' % (prop, a.replay))
            return 1
        return 0

    t_start = time.time()
    seed = int(os.environ.get('VERIF_SEED', '0'))
    _import_odl()
    mod = importlib.import_module(modname)
    configs = list(mod.configs(a.tier, seed))
    if a.only:
        configs = [c for c in configs if fnmatch.fnmatch(c[0], a.only)]
    canaries = list(mod.canaries(a.tier, seed)) if hasattr(mod, 'canaries') and not a.only else []
    # functions_encoded: the repository functions entered on the first path of one configuration per family
    # (family = the first two components of the configuration id), at most 60 traced configurations
    seen_fam, traced = set(), set()
    for cid, _ in configs:
        fam = '/'.join(cid.split('/')[:2])
        if fam not in seen_fam and len(traced) < 60:
            seen_fam.add(fam)
            traced.add(cid)
    tasks = [(modname, cid, p, a.tier, False, cid in traced) for cid, p in configs]
    tasks += [(modname, cid, p, a.tier, True, False) for cid, p in canaries]
    cfg_timeout = getattr(mod, 'CFG_TIMEOUT', {}).get(a.tier, 120 if a.tier == 'quick' else 900)
    nproc = a.jobs or min(16, os.cpu_count() or 4)
    if a.serial:
        results = []
        for t in tasks:
            try:
                results.append(('ok', explore_config(*t)))
            except BaseException as e:      # noqa
                results.append(('err', '%s: %s\n%s' % (type(e).__name__, e, traceback.format_exc())))
    else:
        results = Pool(nproc).run(tasks, cfg_timeout)

    known = load_known(prop)
    lines = []
    exit_code = 0
    agg = dict(configs=0, paths=0, obligations=0, discharged=0, trivial=0, tolerance=0, facts=0,
               excluded_undefined=0, exceptions_excluded=0, infeasible=0, shadow_ok=0, shadow_skipped=0,
               solver_s=0.0, branch_queries=0, unknown_branches=0, sampler_witnesses=0, skipped_undefined=0,
               normal_form=0, linear_box_bound=0, cross_done=0, cross_agree=0, cross_unknown=0, cross_disagree=0)
    keys = set()
    funcs = set()
    stubs = set()
    samples = []
    inconclusive = []
    violations = []
    known_hit = {}
    machinery = []
    canary_total, canary_caught = 0, 0
    cfg_summaries = []

    for task, (status, out) in zip(tasks, results):
        cid, params, is_canary = task[1], task[2], task[4]
        if status == 'timeout':
            if is_canary:
                machinery.append('canary %s timed out' % cid)
            else:
                inconclusive.append('%s: %s' % (cid, out))
            continue
        if status == 'err':
            if not is_canary and ('out of memory' in str(out) or 'MemoryError' in str(out)):
                # the solver (or the worker) hit its memory limit: a resource bound, not a verdict
                inconclusive.append('%s: resource limit: %s' % (cid, str(out)[:160]))
            else:
                machinery.append('%s: harness error: %s' % (cid, out))
            continue
        r = out
        if is_canary:
            canary_total += 1
            if any(c['reproduced'] for c in r['candidates']):
                canary_caught += 1
            else:
                machinery.append('canary %s not caught (candidates=%d, gaps=%s)'
                                 % (cid, len(r['candidates']), r['gaps'][:2]))
            continue
        agg['configs'] += 1
        for k in ('paths', 'obligations', 'discharged', 'trivial', 'tolerance', 'facts', 'excluded_undefined',
                  'exceptions_excluded', 'infeasible', 'shadow_ok', 'shadow_skipped', 'solver_s',
                  'branch_queries', 'unknown_branches', 'sampler_witnesses', 'skipped_undefined', 'normal_form',
                  'linear_box_bound', 'cross_done', 'cross_agree', 'cross_unknown', 'cross_disagree'):
            agg[k] += r.get(k, 0)
        keys.update(r["keys"])
        funcs.update(r['funcs'])
        stubs.update(r['stubs'])
        if len(samples) < 4 and r['samples']:
            smp = dict(r['samples'][0])
            smp['config'] = cid
            samples.append(smp)
        for g in sorted(set(r['gaps'])):
            inconclusive.append('%s: engine gap: %s' % (cid, g))
        for m in r['inconclusive'][:5]:
            inconclusive.append('%s: %s' % (cid, m))
        if r['budget_exceeded']:
            inconclusive.append('%s: path budget exceeded after %d paths' % (cid, r['paths']))
        for m in r['shadow_mismatch'][:3]:
            machinery.append('%s: ENGINE-MISMATCH shadow validation: %s' % (cid, m))
        cfg_summaries.append(dict(config=cid, paths=r['paths'], obligations=r['obligations'],
                                  discharged=r['discharged'], candidates=len(r['candidates']),
                                  wall_s=round(r.get('wall_s', 0.0), 2)))
        seen_labels = set()
        for c in r['candidates']:
            if c['label'] in seen_labels:
                continue
            seen_labels.add(c['label'])
            if not c['reproduced']:
                # maybe another candidate with the same label on another path reproduces
                alt = [d for d in r['candidates'] if d['label'] == c['label'] and d['reproduced']]
                if alt:
                    c = alt[0]
            if not c['reproduced']:
                if c['kind'] == 'taint':
                    inconclusive.append('%s: previous-contents dependency for %r not reproduced with NaN-filled '
                                        'contents (%s)' % (cid, c['label'], c['conc_detail'][:120]))
                elif c['kind'] == 'raises':
                    inconclusive.append('%s: symbolic run raised %s (not reproduced concretely: engine gap) %s'
                                        % (cid, c['detail'], c.get('tb', '')[-300:] if a.verbose else ''))
                else:
                    machinery.append('%s: ENGINE-MISMATCH candidate for %r did not reproduce concretely (%s; %s)'
                                     % (cid, c['label'], c['detail'], c['conc_detail']))
                continue
            kf = match_known(known, cid, c['label'])
            if kf is not None:
                known_hit.setdefault(kf['id'], []).append(cid)
                continue
            path = write_replay(prop, modname, cid, params, c)
            ok, txt = fresh_replay(prop, path)
            if ok:
                violations.append((cid, c, path))
            else:
                machinery.append('%s: ENGINE-MISMATCH candidate for %r reproduced in-process but not in a fresh '
                                 'process on the unpatched code: %s' % (cid, c['label'], txt[-300:]))

    # ---- report
    for kf in known:
        if kf['id'] in known_hit:
            print('KNOWN-FINDING: property=%s %s [%d configuration(s), e.g. %s]'
                  % (prop, kf['what'], len(known_hit[kf['id']]), known_hit[kf['id']][0]))
    for m in inconclusive[:60]:
        print('INCONCLUSIVE: property=%s %s' % (prop, m))
    if len(inconclusive) > 60:
        print('INCONCLUSIVE: property=%s ... and %d more' % (prop, len(inconclusive) - 60))
    for m in machinery[:40]:
        print('MACHINERY-FAULT: property=%s %s' % (prop, m))
    shown = set()
    for cid, c, path in violations:
        key = (c['label'], cid.split('/')[0])
        if len(shown) < 25 or key not in shown:
            print('VIOLATION property=%s replay=%s' % (prop, path))
            print('  config=%s assertion=%s %s | %s' % (cid, c['label'], c['detail'], c['conc_detail'][:300]))
        shown.add(key)
    if a.verbose:
        for c in sorted(cfg_summaries, key=lambda c: -c['wall_s'])[:15]:
            print('SLOW: %(wall_s)7.1fs paths=%(paths)d obligations=%(obligations)d %(config)s' % c)
    if violations:
        exit_code = 1
    elif machinery:
        exit_code = 2
    wall = time.time() - t_start

    evidence = {
        'property_id': prop, 'tier': a.tier, 'seed': seed, 'level': 'other',
        'coverage': {
            'explanation': getattr(mod, 'EXPLANATION', '') + ' Method: bounded symbolic execution of the real '
            'ODL code on symbolic array contents (module-global injection, no source hooks); every assertion is an SMT '
            'obligation path-condition ∧ axioms ∧ ¬goal decided by z3 (unsat = holds for all values on that '
            'path); counterexamples are replayed on the unpatched code in a fresh process before being reported.',
            'functions_encoded': sorted(funcs)[:400],
            'bounds': getattr(mod, 'BOUNDS', {}).get(a.tier, getattr(mod, 'BOUNDS', {})),
            'outside_claim': getattr(mod, 'OUTSIDE', []),
            'configs': agg['configs'], 'paths': agg['paths'],
            'infeasible_prefixes_pruned': agg['infeasible'],
            'obligations': agg['obligations'], 'discharged': agg['discharged'],
            'discharged_syntactically_identical': agg['trivial'],
            'discharged_by_box_tolerance': agg['tolerance'],
            'discharged_by_polynomial_normal_form_modulo_axioms': agg['normal_form'],
            'of_the_tolerance_discharges_by_exact_linear_box_bound': agg['linear_box_bound'],
            'z3_unsat_verdicts_cross_checked_with_cvc5': {'checked': agg['cross_done'], 'agree': agg['cross_agree'],
                                                         'cvc5_unknown_or_timeout': agg['cross_unknown'],
                                                         'disagree': agg['cross_disagree']},
            'concrete_facts_checked': agg['facts'],
            'excluded_undefined_arithmetic': agg['excluded_undefined'] + agg['exceptions_excluded'],
            'zero_denominator_inputs_assumed_away': agg['skipped_undefined'],
            'branch_solver_queries': agg['branch_queries'],
            'branch_sides_witnessed_by_sample_point': agg['sampler_witnesses'],
            'inconclusive': inconclusive[:100], 'inconclusive_count': len(inconclusive),
            'evaluations': agg['obligations'],
            'distinct_nontrivial': len(keys),
            'rule': 'one evaluation = one SMT obligation (assertion x path x configuration); distinct = '
                    'distinct alpha-renamed canonical (goal, path condition, axioms) structures that were not '
                    'syntactically identical and needed a solver verdict',
            'samples': samples or [{'note': 'no solver obligation in this run'}],
            'exhaustive': bool(getattr(mod, 'EXHAUSTIVE', False)),
            'solver': 'z3 %s (python API, incremental, per-path push/pop)' % _z3_version(),
            'solver_s': round(agg['solver_s'], 2),
            'branch_feasibility_queries': agg['branch_queries'],
            'branch_queries_unknown': agg['unknown_branches'],
            'traces_validated_against_impl': agg['shadow_ok'],
            'shadow_skipped': agg['shadow_skipped'],
            'stubs': sorted(stubs),
            'canaries_run': canary_total, 'canaries_caught': canary_caught,
            'known_findings': sorted(known_hit),
            'machinery_faults': machinery[:20],
            'per_config': cfg_summaries[:300],
            'trusted_base': ['symnp engine (SV/SC/SD scalars, SymArray dtype shadow, NPProxy rules, BLAS stubs)',
                             'numpy object-dtype loops', 'z3'],
        },
        'assumptions': getattr(mod, 'ASSUMPTIONS', []) + [
            'real/integer/complex arithmetic is exact (no rounding, overflow, NaN/Inf); see DESIGN.md 3.6'],
        'wall_s': round(wall, 2),
        'violations': len(violations),
    }
    if not a.no_evidence and not a.only:
        os.makedirs(os.path.join(VERIF, 'evidence'), exist_ok=True)
        with open(os.path.join(VERIF, 'evidence', '%s.json' % prop), 'w') as f:
            json.dump(evidence, f, indent=1, sort_keys=True, default=str)
    print('%s %s: configs=%d paths=%d obligations=%d discharged=%d (identical=%d, tolerance=%d) facts=%d '
          'inconclusive=%d known=%d violations=%d canaries=%d/%d shadow=%d solver=%.1fs wall=%.1fs exit=%d'
          % (prop, a.tier, agg['configs'], agg['paths'], agg['obligations'], agg['discharged'], agg['trivial'],
             agg['tolerance'], agg['facts'], len(inconclusive), len(known_hit), len(violations), canary_caught,
             canary_total, agg['shadow_ok'], agg['solver_s'], wall, exit_code))
    return exit_code


def cid_hash(cid):
    return hashlib.sha1(cid.encode()).hexdigest()[:8]


def _z3_version():
    import z3
    return z3.get_version_string()
