"""Models of the two FFT libraries behind ODL's Fourier transforms, for symbolic data.

numpy.fft.{fftn, ifftn, rfftn, irfftn} and pyfftw.FFTW are C code; ODL's own code is the glue around them (axes,
sign, half-complex shapes, normalisation, pre/post-processing, temporaries, plans).  The glue is executed for real;
the libraries are replaced by their *documented* input/output relation, the discrete Fourier sum

    Y[k] = sum_j X[j] exp(-+ 2 pi i j k / n)          (per transformed axis)

evaluated on the symbolic entries.  Twiddle factors are exact for n in {1, 2, 3, 4, 6, 12} (values in
{0, +-1/2, +-1, +-sqrt(3)/2}, sqrt(3) being the engine's sqrt primitive with its axiom) and correctly rounded
floats otherwise.  In concrete mode (shadow validation of every path, replay) the real libraries run, so the
models themselves are compared with numpy.fft and FFTW on every explored path.

The FFTW model also reproduces the documented side effects that matter for ODL's buffer handling: planning with
an effort above ESTIMATE overwrites both plan arrays, FFTW_DESTROY_INPUT and multi-dimensional c2r transforms
destroy the input (all modelled as fresh 'garbage' symbols, which the taint check tracks)."""
import math
from fractions import Fraction

import numpy as np

from .scalars import SV, SC, is_symscalar, tolift
from .sarray import SymArray, wrap, to_object_array, real_dtype, is_sym
from . import terms as T


EXACT = True        # exact twiddle factors where possible (set to False when the data carries float factors anyway)


def twiddle(n, m, sign):
    """exp(sign * 2 pi i m / n) as an engine complex (exact where possible)"""
    m %= n
    if 12 % n == 0 and (EXACT or 4 % n == 0):
        k = m * (12 // n)          # multiples of 30 degrees
        half = SV(T.const(Fraction(1, 2)))
        one, zero = SV(T.const(1)), SV(T.const(0))
        s3 = SV(T.const(3)).sqrt() * half
        cos = [one, s3, half, zero, -half, -s3, -one, -s3, -half, zero, half, s3][k]
        sin = [zero, half, s3, one, s3, half, zero, -half, -s3, -one, -s3, -half][k]
    else:
        a = 2 * math.pi * m / n
        cos, sin = tolift(math.cos(a)), tolift(math.sin(a))
    return SC(cos, sin if sign > 0 else -sin)


def _dft_axis(a, axis, sign, n_out=None, n_in=None):
    """unnormalised DFT of the object array ``a`` along ``axis`` (n_out output entries, n_in logical length)"""
    n = a.shape[axis] if n_in is None else n_in
    n_out = n if n_out is None else n_out
    a = np.moveaxis(a, axis, -1)
    out = np.empty(a.shape[:-1] + (n_out,), dtype=object)
    tw = [twiddle(n, m, sign) for m in range(n)]
    for idx in np.ndindex(a.shape[:-1]):
        row = a[idx]
        for k in range(n_out):
            acc = SC(SV(T.const(0)), SV(T.const(0)))
            for j in range(len(row)):
                acc = acc + SC.coerce(row[j]) * tw[(j * k) % n]
            out[idx + (k,)] = acc
    return np.moveaxis(out, -1, axis)


def _hermitian_extend(a, axis, n):
    """full spectrum of length n from the half spectrum along ``axis`` (c2r semantics: the imaginary parts of the
    self-conjugate entries are ignored, as FFTW and numpy do)"""
    a = np.moveaxis(a, axis, -1)
    m = a.shape[-1]
    out = np.empty(a.shape[:-1] + (n,), dtype=object)
    for idx in np.ndindex(a.shape[:-1]):
        for k in range(n):
            if k < m:
                out[idx + (k,)] = SC.coerce(a[idx + (k,)])
            else:
                out[idx + (k,)] = SC.coerce(a[idx + (n - k,)]).conjugate()
    return np.moveaxis(out, -1, axis)


def _axes(a, axes):
    if axes is None:
        return tuple(range(a.ndim))
    if isinstance(axes, (int, np.integer)):
        axes = (int(axes),)
    return tuple(int(x) % a.ndim for x in axes)


def _cdtype(x):
    dt = real_dtype(getattr(x, 'dtype', None))
    return np.dtype('complex64') if dt in (np.dtype('float32'), np.dtype('complex64')) else np.dtype('complex128')


def _rdtype(x):
    dt = real_dtype(getattr(x, 'dtype', None))
    return np.dtype('float32') if dt in (np.dtype('float32'), np.dtype('complex64')) else np.dtype('float64')


def c2c(x, axes, sign, normalise):
    a = to_object_array(x)
    ax = _axes(a, axes)
    for k in ax:
        a = _dft_axis(a, k, sign)
    if normalise:
        n = int(np.prod([a.shape[k] for k in ax]))
        a = _scale(a, Fraction(1, n))
    return a


def _scale(a, q):
    out = np.empty(a.shape, dtype=object)
    c = SV(T.const(q))
    for idx in np.ndindex(a.shape):
        out[idx] = a[idx] * c
    return out


def r2c(x, axes):
    a = to_object_array(x)
    ax = _axes(a, axes)
    last = ax[-1]
    n = a.shape[last]
    a = _dft_axis(a, last, -1, n_out=n // 2 + 1)
    for k in ax[:-1]:
        a = _dft_axis(a, k, -1)
    return a


def c2r(x, axes, shape_last, normalise):
    """inverse of r2c: complex half spectrum -> real array whose last transformed axis has length shape_last"""
    a = to_object_array(x)
    ax = _axes(a, axes)
    for k in ax[:-1]:
        a = _dft_axis(a, k, +1)
    last = ax[-1]
    a = _hermitian_extend(a, last, shape_last)
    a = _dft_axis(a, last, +1)
    out = np.empty(a.shape, dtype=object)
    n = int(np.prod([a.shape[k] for k in ax]))
    c = SV(T.const(Fraction(1, n) if normalise else 1))
    for idx in np.ndindex(a.shape):
        out[idx] = SC.coerce(a[idx]).re * c
    return out


# ------------------------------------------------------------------ numpy.fft
class NumpyFFT(object):
    def __init__(self, real):
        self._r = real

    def __getattr__(self, n):
        return getattr(self._r, n)

    @staticmethod
    def _check(s, norm):
        if norm not in (None, 'backward'):
            from .scalars import EngineGap
            raise EngineGap('numpy.fft with norm=%r on symbolic data' % (norm,))

    def fftn(self, a, s=None, axes=None, norm=None):
        if not is_sym(a):
            return self._r.fftn(a, s=s, axes=axes, norm=norm)
        self._check(s, norm)
        if s is not None:
            from .scalars import EngineGap
            raise EngineGap('numpy.fft.fftn with s= on symbolic data')
        return wrap(c2c(a, axes, -1, False), _cdtype(a))

    def ifftn(self, a, s=None, axes=None, norm=None):
        if not is_sym(a):
            return self._r.ifftn(a, s=s, axes=axes, norm=norm)
        self._check(s, norm)
        if s is not None:
            from .scalars import EngineGap
            raise EngineGap('numpy.fft.ifftn with s= on symbolic data')
        return wrap(c2c(a, axes, +1, True), _cdtype(a))

    def rfftn(self, a, s=None, axes=None, norm=None):
        if not is_sym(a):
            return self._r.rfftn(a, s=s, axes=axes, norm=norm)
        self._check(s, norm)
        if s is not None:
            from .scalars import EngineGap
            raise EngineGap('numpy.fft.rfftn with s= on symbolic data')
        arr = to_object_array(a)
        if real_dtype(getattr(a, 'dtype', None)).kind == 'c':
            # numpy discards the imaginary part (with a warning)
            re = np.empty(arr.shape, dtype=object)
            for idx in np.ndindex(arr.shape):
                re[idx] = SC.coerce(arr[idx]).re
            arr = re
        return wrap(r2c(arr, axes), _cdtype(a))

    def irfftn(self, a, s=None, axes=None, norm=None):
        if not is_sym(a):
            return self._r.irfftn(a, s=s, axes=axes, norm=norm)
        self._check(s, norm)
        arr = to_object_array(a)
        ax = _axes(arr, axes)
        if s is None:
            n_last = 2 * (arr.shape[ax[-1]] - 1)          # numpy's documented default
        else:
            s = [int(v) for v in np.asarray(s).ravel()]
            if len(s) != len(ax):
                raise ValueError('Shape and axes have different lengths.')
            for k, n in zip(ax[:-1], s[:-1]):
                if n != arr.shape[k]:
                    from .scalars import EngineGap
                    raise EngineGap('numpy.fft.irfftn cropping/padding on symbolic data')
            n_last = s[-1]
            if n_last // 2 + 1 != arr.shape[ax[-1]]:
                from .scalars import EngineGap
                raise EngineGap('numpy.fft.irfftn cropping/padding on symbolic data')
        return wrap(c2r(arr, axes, n_last, True), _rdtype(a))


# ------------------------------------------------------------------ pyfftw
class FakePyFFTW(object):
    """stands in for the ``pyfftw`` module global of odl.trafos.backends.pyfftw_bindings"""

    def __init__(self, real):
        self._r = real
        self.plans = 0
        self.calls = 0

    def __getattr__(self, n):
        return getattr(self._r, n)

    def FFTW(self, input_array, output_array, axes=(-1,), direction='FFTW_FORWARD', flags=('FFTW_MEASURE',),
             threads=1, planning_timelimit=None, **kw):
        if not (is_sym(input_array) or is_sym(output_array)):
            plan = self._r.FFTW(input_array, output_array, axes=axes, direction=direction, flags=flags,
                                threads=threads, planning_timelimit=planning_timelimit, **kw)
            if 'FFTW_ESTIMATE' not in flags:
                # documented contract made observable at small sizes: planning with an effort above ESTIMATE
                # overwrites the plan arrays (FFTW only does so when it really measures, i.e. for larger sizes)
                for arr in (input_array, output_array):
                    if arr.dtype.kind in 'fc':
                        arr[...] = np.nan
            return plan
        self.plans += 1
        return _Plan(self, input_array, output_array, axes, direction, tuple(flags))


def _garbage_fill(arr):
    from .proxy import garbage
    g = garbage(arr.shape, arr.dtype)
    arr.view(np.ndarray)[...] = g.view(np.ndarray)


class _Plan(object):
    def __init__(self, owner, inp, out, axes, direction, flags):
        self.owner = owner
        self.axes = tuple(axes)
        self.direction = direction
        self.flags = flags
        self.in_shape, self.out_shape = inp.shape, out.shape
        self.in_dtype, self.out_dtype = real_dtype(inp.dtype), real_dtype(out.dtype)
        kinds = (self.in_dtype.kind, self.out_dtype.kind)
        self.kind = {('c', 'c'): 'c2c', ('f', 'c'): 'r2c', ('c', 'f'): 'c2r'}.get(kinds)
        if self.kind is None:
            raise ValueError('Invalid scheme: the output array and input array dtypes do not correspond to a '
                             'valid fftw scheme.')
        if self.kind == 'r2c' and direction != 'FFTW_FORWARD' or self.kind == 'c2r' and direction != 'FFTW_BACKWARD':
            raise ValueError('Invalid direction: the direction is not valid for the scheme')
        exp = list(inp.shape)
        last = self.axes[-1] % inp.ndim
        if self.kind == 'r2c':
            exp[last] = inp.shape[last] // 2 + 1
        elif self.kind == 'c2r':
            exp[last] = None if out.shape[last] // 2 + 1 == inp.shape[last] else -1
            exp = [o if e is None else e for e, o in zip(exp, out.shape)]
        if tuple(exp) != tuple(out.shape):
            raise ValueError('Invalid shapes: the output array should be the same shape as the input array for '
                             'the given array dtypes (up to the half-complex axis)')
        # planning with more than ESTIMATE overwrites the plan arrays
        if 'FFTW_ESTIMATE' not in flags:
            if isinstance(inp, SymArray):
                _garbage_fill(inp)
            if isinstance(out, SymArray) and out is not inp:
                _garbage_fill(out)

    def __call__(self, input_array=None, output_array=None, normalise_idft=True, ortho=False):
        if ortho:
            from .scalars import EngineGap
            raise EngineGap('pyfftw ortho normalisation')
        self.owner.calls += 1
        inp, out = input_array, output_array
        if inp.shape != self.in_shape or real_dtype(inp.dtype) != self.in_dtype:
            raise ValueError('Invalid input shape/dtype: the new input array must match the plan')
        if out.shape != self.out_shape or real_dtype(out.dtype) != self.out_dtype:
            raise ValueError('Invalid output shape/dtype: the new output array must match the plan')
        if self.kind == 'c2c':
            sign = -1 if self.direction == 'FFTW_FORWARD' else +1
            res = c2c(inp, self.axes, sign, normalise_idft and sign > 0)
        elif self.kind == 'r2c':
            res = r2c(inp, self.axes)
        else:
            last = self.axes[-1] % out.ndim
            res = c2r(inp, self.axes, out.shape[last], normalise_idft)
        # FFTW_DESTROY_INPUT alone is a permission FFTW does not use for these transforms; multi-dimensional c2r
        # transforms do destroy their input
        destroys = self.kind == 'c2r' and inp.ndim > 1
        same = inp is out or (isinstance(inp, np.ndarray) and isinstance(out, np.ndarray)
                              and np.shares_memory(inp.view(np.ndarray), out.view(np.ndarray)))
        if destroys and not same and isinstance(inp, SymArray):
            _garbage_fill(inp)
        if isinstance(out, SymArray):
            out.view(np.ndarray)[...] = res
        else:
            raise TypeError('symbolic transform into a concrete output array')
        return out
