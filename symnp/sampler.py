"""Cheap feasibility witnesses for branch decisions.

A branch needs to know whether ``pc AND cond`` and ``pc AND NOT cond`` are satisfiable.  Most of the time both
are, and a random point shows it: the sampler keeps a small pool of concrete assignments that satisfy the current
path condition *robustly* (every comparison holds with a margin far above float rounding, all primitives are
evaluated by their real mathematical functions so that their axioms hold), and answers "satisfiable" when one of
them also satisfies the queried condition robustly.  It never answers "unsatisfiable": that is always the solver's
verdict.  A wrong "satisfiable" (impossible up to the margin) would only add a path whose obligations are vacuous.
"""
import math
import zlib

from . import terms as T

MARGIN = 1e-7
_FUN = dict(T._PYFUN)


class Unknown(Exception):
    pass


def _draw(k, name, sort, lo, hi):
    h = zlib.crc32(('%d:%s' % (k, name)).encode())
    if sort == T.B:
        return bool(h & 1)
    if sort == T.Z:
        a = int(math.ceil(lo)) if lo is not None else -4
        b = int(math.floor(hi)) if hi is not None else 4
        if lo is not None and hi is None:
            b = a + 8
        if hi is not None and lo is None:
            a = b - 8
        if b < a:
            return a
        return a + h % (b - a + 1)
    a = lo if lo is not None else (-4.0 if hi is None else hi - 8.0)
    b = hi if hi is not None else (4.0 if lo is None else lo + 8.0)
    # strictly inside, on a grid of 1/1024 of the range (never on the boundary)
    return a + (b - a) * ((h % 1021) + 1.5) / 1024.0


class Sampler(object):
    def __init__(self, n=24):
        self.n = n
        self.reset()

    def reset(self):
        self.envs = None
        self.caches = None
        self.alive = []
        self.seen = 0
        self.regens = 0
        self.disabled = False
        self.bounds = {}
        self.hints = {}
        self.hits = 0
        self.misses = 0

    # ------------------------------------------------------------ evaluation
    def _val(self, k, root):
        env, cache = self.envs[k], self.caches[k]
        if root.id in cache:
            return cache[root.id]
        for t in T.postorder([root]):
            if t.id in cache:
                continue
            op = t.op
            a = [cache[x.id] for x in t.args]
            if op == 'const':
                v = float(t.val)
            elif op == 'var':
                if t.val not in env:
                    lo, hi = self.hints.get(t.val) or self.bounds.get(t.val, (None, None))
                    env[t.val] = _draw(k, t.val, t.sort, lo, hi)
                v = env[t.val]
            elif op in ('true', 'false'):
                v = op == 'true'
            elif op == 'add':
                v = a[0] + a[1]
            elif op == 'neg':
                v = -a[0]
            elif op == 'mul':
                v = a[0] * a[1]
            elif op == 'div':
                v = a[0] / a[1] if abs(a[1]) > MARGIN else float('nan')
            elif op == 'idiv':
                v = a[0] // a[1] if a[1] != 0 else float('nan')
            elif op == 'imod':
                v = a[0] % a[1] if a[1] != 0 else float('nan')
            elif op == 'to_real':
                v = float(a[0])
            elif op == 'ite':
                v = float('nan') if a[0] is None else (a[1] if a[0] else a[2])
            elif op == 'app':
                f = _FUN.get(t.val)
                if f is None:
                    raise Unknown(t.val)
                try:
                    v = f(*a)
                except (ValueError, OverflowError, TypeError):
                    v = float('nan')
            elif op in ('lt', 'le'):
                x, y = a
                if x != x or y != y:
                    v = None
                else:
                    m = MARGIN * (1.0 + abs(x) + abs(y))
                    if x < y - m:
                        v = True
                    elif x > y + m:
                        v = False
                    else:
                        v = None
            elif op in ('eq', 'iff'):
                x, y = a
                if isinstance(x, bool) or isinstance(y, bool) or x is None or y is None:
                    v = None if (x is None or y is None) else (x == y)
                elif x != x or y != y:
                    v = None
                elif abs(x - y) > MARGIN * (1.0 + abs(x) + abs(y)):
                    v = False
                elif t.args[0].sort == T.Z and t.args[1].sort == T.Z:
                    v = x == y
                else:
                    v = None            # equality of reals is never witnessed by floats
            elif op == 'not':
                v = None if a[0] is None else (not a[0])
            elif op == 'and':
                v = False if any(x is False for x in a) else (None if any(x is None for x in a) else True)
            elif op == 'or':
                v = True if any(x is True for x in a) else (None if any(x is None for x in a) else False)
            else:
                raise Unknown(op)
            cache[t.id] = v
        return cache[root.id]

    def hint(self, name, lo, hi):
        """declared range of an input (used when the variable is first drawn)"""
        self.hints[name] = (None if lo is None else float(lo), None if hi is None else float(hi))

    def ground(self, cond):
        """truth value of a condition without free variables, if robustly decidable by evaluation"""
        if self.disabled or T.free_vars([cond]):
            return None
        try:
            saved = (self.envs, self.caches)
            if self.envs is None:
                self.envs, self.caches = [{}], [{}]
            try:
                return self._val(0, cond)
            finally:
                if saved[0] is None:
                    self.envs, self.caches = saved
        except Unknown:
            return None

    # ------------------------------------------------------------ pool
    def _bounds_from(self, pc):
        b = {}
        for c in pc:
            neg = False
            if c.op == 'not':
                c, neg = c.args[0], True
            if c.op not in ('le', 'lt'):
                continue
            x, y = c.args
            if x.op == 'to_real':
                x = x.args[0]
            if y.op == 'to_real':
                y = y.args[0]
            if x.op == 'var' and y.op == 'const':
                name, val, upper = x.val, float(y.val), not neg
            elif x.op == 'const' and y.op == 'var':
                name, val, upper = y.val, float(x.val), neg
            else:
                continue
            lo, hi = b.get(name, (None, None))
            if upper:
                hi = val if hi is None else min(hi, val)
            else:
                lo = val if lo is None else max(lo, val)
            b[name] = (lo, hi)
        return b

    def _generate(self, pc):
        self.bounds = self._bounds_from(pc)
        self.envs = [{} for _ in range(self.n)]
        self.caches = [{} for _ in range(self.n)]
        self.alive = list(range(self.n))
        self.seen = 0
        self.regens += 1

    def _filter(self, pc):
        while self.seen < len(pc):
            c = pc[self.seen]
            self.seen += 1
            self.alive = [k for k in self.alive if self._val(k, c) is True]
            if not self.alive:
                break

    def current(self, pc):
        """index of a pool point that satisfies the whole path condition robustly, or None"""
        if self.disabled:
            return None
        try:
            if self.envs is None:
                self._generate(pc)
            self._filter(pc)
            return self.alive[0] if self.alive else None
        except Unknown:
            self.disabled = True
            return None

    def value_of(self, k, name, sort):
        env = self.envs[k]
        if name not in env:
            lo, hi = self.hints.get(name) or self.bounds.get(name, (None, None))
            env[name] = _draw(k, name, sort, lo, hi)
        return env[name]

    def witness(self, pc, axioms, cond):
        """(can_true, can_false): True where a robust witness exists, None where unknown."""
        if self.disabled:
            return None, None
        try:
            if self.envs is None:
                self._generate(pc)
            self._filter(pc)
            if not self.alive and self.regens < 4:
                # new bounds may have arrived since the pool was drawn
                self._generate(pc)
                self.n_keep = self.n
                self._filter(pc)
            if not self.alive:
                self.misses += 1
                return None, None
            ct = cf = None
            for k in self.alive:
                v = self._val(k, cond)
                if v is True:
                    ct = True
                elif v is False:
                    cf = True
                if ct and cf:
                    break
            if ct or cf:
                self.hits += 1
            return ct, cf
        except Unknown:
            self.disabled = True
            return None, None
