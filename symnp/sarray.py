"""SymArray: a real numpy object array holding symbolic scalars, with a
*claimed* dtype (float64, complex128, int64, ...).  Slicing, views, strides,
broadcasting, ``out=`` and aliasing are NumPy's own."""
import numpy as np

from . import terms as T
from .scalars import SV, SC, SD, SB, ENG, EngineGap, lift, tolift, is_symscalar


class FakeDtype(object):
    """Stands in for the numpy dtype of a SymArray (``np.dtype(fake)`` works
    because numpy honours a ``.dtype`` attribute)."""

    def __init__(self, real):
        if isinstance(real, FakeDtype):
            real = real.dtype
        self.dtype = np.dtype(real)

    def __eq__(self, o):
        if isinstance(o, FakeDtype):
            return self.dtype == o.dtype
        try:
            return self.dtype == np.dtype(o)
        except TypeError:
            return False

    def __ne__(self, o):
        return not self == o

    def __hash__(self):
        return hash(self.dtype)

    def __getattr__(self, n):
        if n.startswith('__') and n.endswith('__'):
            raise AttributeError(n)
        return getattr(self.dtype, n)

    def __repr__(self):
        return repr(self.dtype)

    def __str__(self):
        return str(self.dtype)

    @property
    def type(self):
        real = self.dtype.type

        def conv(x=0):
            if is_symscalar(x):
                if self.dtype.kind == 'c':
                    return SC.coerce(x)
                return x
            return real(x)
        conv.__name__ = real.__name__
        return conv


def real_dtype(dt):
    """FakeDtype | dtype-like -> np.dtype"""
    if isinstance(dt, FakeDtype):
        return dt.dtype
    if dt is None:
        return np.dtype('float64')
    if isinstance(dt, type) and hasattr(dt, 'dtype') and isinstance(getattr(dt, 'dtype'), np.dtype):
        return dt.dtype           # symfloat & friends
    return np.dtype(dt)


def _coerce_entry(v, kind):
    """Lift a raw entry to the scalar class appropriate for the claimed kind."""
    if kind == 'c':
        c = SC.coerce(v)
        if c is None:
            raise EngineGap('cannot make %r complex' % (v,))
        return c
    if isinstance(v, (SV, SD)):
        return v
    if isinstance(v, SC):
        return v
    return tolift(v)


class SymArray(np.ndarray):
    _fake = None

    def __array_finalize__(self, obj):
        if obj is not None:
            self._fake = getattr(obj, '_fake', None)

    @property
    def dtype(self):
        return self._fake if self._fake is not None else np.ndarray.dtype.__get__(self)

    # plain view (real object dtype visible)
    @property
    def raw(self):
        return self.view(np.ndarray)

    def astype(self, dt, order='K', casting='unsafe', subok=True, copy=True):
        new = real_dtype(dt)
        old = real_dtype(self._fake)
        if new.kind == 'O':
            # explicit request for the raw object array (e.g. numpy coercing an operand)
            return self.view(np.ndarray) if not copy else self.view(np.ndarray).copy()
        if new.kind not in 'fciub':
            raise EngineGap('astype(%s) of symbolic data' % new)
        if casting != 'unsafe' and not np.can_cast(old, new, casting):
            raise TypeError('Cannot cast array data from %r to %r according to the rule %r' % (old, new, casting))
        r = np.ndarray.copy(self, order=order if order in 'CFAK' else 'K')
        if new.kind == 'c' and old.kind != 'c':
            rr = r.view(np.ndarray)
            for idx in np.ndindex(r.shape):
                rr[idx] = SC.coerce(rr[idx])
        elif new.kind != 'c' and old.kind == 'c':
            rr = r.view(np.ndarray)
            for idx in np.ndindex(r.shape):
                rr[idx] = SC.coerce(rr[idx]).re
        elif new.kind in 'iu' and old.kind == 'f':
            rr = r.view(np.ndarray)
            for idx in np.ndindex(r.shape):
                v = rr[idx]
                if isinstance(v, SV):
                    rr[idx] = v.trunc()
                elif isinstance(v, (SC, SD)):
                    raise EngineGap('float -> int truncation of symbolic data')
                else:
                    rr[idx] = int(v)
        elif new.kind == 'b':
            raise EngineGap('symbolic -> bool cast')
        r._fake = FakeDtype(new)
        return r

    def copy(self, order='C'):
        r = np.ndarray.copy(self, order=order)
        r._fake = self._fake
        return r

    def __copy__(self):
        return self.copy()

    def __deepcopy__(self, memo):
        return self.copy()

    def item(self, *a):
        return np.ndarray.item(self, *a)

    def tolist(self):
        return self.view(np.ndarray).tolist()

    def tobytes(self, order='C'):
        """Bytes for hashing: one token per entry, chosen by solver entailment (ENG.hash_token)."""
        import struct
        out = []
        for v in self.view(np.ndarray).ravel(order='C' if order in ('C', 'A', 'K', None) else 'F'):
            if isinstance(v, SC):
                out.append(struct.pack('qq', hash(v.re) & 0x7fffffffffffffff, hash(v.im) & 0x7fffffffffffffff))
            else:
                out.append(struct.pack('q', hash(v) & 0x7fffffffffffffff))
        return b''.join(out)

    def fill(self, v):
        kind = real_dtype(self._fake).kind
        np.ndarray.fill(self, _coerce_entry(v, kind))

    def __float__(self):
        if self.size == 1:
            return self.view(np.ndarray).ravel()[0]     # a symbol; callers in patched modules accept it
        raise TypeError('only size-1 arrays can be converted')

    # ------------------------------------------------------------------
    def __array_ufunc__(self, ufunc, method, *inputs, out=None, **kw):
        # defer to operands that bring their own __array_ufunc__ (ODL elements), as ndarray does
        for v in tuple(inputs) + tuple(out or ()):
            if not isinstance(v, np.ndarray) and hasattr(type(v), '__array_ufunc__') and \
                    type(v).__array_ufunc__ is not None and not is_symscalar(v):
                return NotImplemented
        return array_ufunc(ufunc, method, inputs, out, kw)

    # ---- complex part views
    @property
    def real(self):
        return _part(self, 're')

    @real.setter
    def real(self, v):
        _part(self, 're')[...] = v

    @property
    def imag(self):
        return _part(self, 'im')

    @imag.setter
    def imag(self, v):
        p = _part(self, 'im')
        if isinstance(p, PartView):
            p[...] = v
        else:
            raise TypeError('array does not have imaginary part to set')

    def conj(self):
        return np.conjugate(self)

    conjugate = conj

    def __repr__(self):
        return 'SymArray(%s, %r)' % (self.view(np.ndarray).tolist(), self._fake)


class PartView(SymArray):
    """Write-through view on the real/imaginary parts of a complex SymArray."""
    _parent = None
    _part = None

    def __array_finalize__(self, obj):
        SymArray.__array_finalize__(self, obj)
        if obj is not None and isinstance(obj, PartView):
            # a sliced PartView is no longer tied to the parent cells: make it inert
            self._parent = None

    def _sync(self):
        p = self._parent
        if p is None:
            return
        pr = p.view(np.ndarray)
        me = self.view(np.ndarray)
        for idx in np.ndindex(p.shape):
            e = pr[idx]
            v = me[idx]
            v = v if isinstance(v, SV) else tolift(v)
            pr[idx] = SC(v, e.im) if self._part == 're' else SC(e.re, v)

    def __setitem__(self, k, v):
        np.ndarray.__setitem__(self, k, v)
        self._sync()

    def __getitem__(self, k):
        r = np.ndarray.__getitem__(self, k)
        if isinstance(r, PartView) and self._parent is not None:
            try:
                sub = self._parent[k]
            except Exception:
                return r
            if isinstance(sub, SymArray):
                r._parent = sub
                r._part = self._part
        return r

    def __array_ufunc__(self, ufunc, method, *inputs, out=None, **kw):
        r = array_ufunc(ufunc, method, inputs, out, kw)
        if out is not None:
            for o in out:
                if isinstance(o, PartView):
                    o._sync()
        return r


def _part(arr, which):
    fk = real_dtype(arr._fake)
    if fk.kind == 'c':
        a = np.empty(arr.shape, dtype=object)
        src = arr.view(np.ndarray)
        for idx in np.ndindex(arr.shape):
            e = SC.coerce(src[idx])
            a[idx] = e.re if which == 're' else e.im
        v = a.view(PartView)
        v._parent = arr
        v._part = which
        v._fake = FakeDtype('float32' if fk == np.dtype('complex64') else 'float64')
        return v
    if which == 're':
        return arr
    z = np.empty(arr.shape, dtype=object)
    z[...] = SV(T.const(0))
    z = z.view(SymArray)
    z._fake = arr._fake
    z.flags.writeable = False
    return z


# ----------------------------------------------------------------------
def wrap(a, dtype=None):
    """object ndarray / nested list of scalars -> SymArray with claimed dtype."""
    if isinstance(a, SymArray):
        if a._fake is None:
            a._fake = FakeDtype(dtype or _guess(a))
        return a
    if not isinstance(a, np.ndarray):
        a = to_object_array(a)
    if a.dtype != object:
        a = a.astype(object)
    r = a.view(SymArray)
    r._fake = FakeDtype(dtype if dtype is not None else _guess(a))
    return r


def to_object_array(x):
    """Nested lists/tuples/arrays/scalars -> object ndarray (never iterates scalars)."""
    if isinstance(x, np.ndarray):
        return x.astype(object) if x.dtype != object else x
    if is_symscalar(x) or np.isscalar(x):
        a = np.empty((), dtype=object)
        a[()] = x
        return a
    if hasattr(x, 'asarray') and not isinstance(x, (list, tuple)):
        return to_object_array(x.asarray())
    if hasattr(x, '__array__') and not isinstance(x, (list, tuple)):
        return to_object_array(np.asarray(x))
    parts = [to_object_array(v) for v in x]
    if not parts:
        return np.empty((0,), dtype=object)
    shp = parts[0].shape
    if any(p.shape != shp for p in parts):
        raise ValueError('ragged symbolic array')
    out = np.empty((len(parts),) + shp, dtype=object)
    for i, p in enumerate(parts):
        out[i] = p
    return out


def _guess(a):
    kind = 'i'
    for v in np.asarray(a, dtype=object).ravel()[:64]:
        if isinstance(v, SC) or isinstance(v, (complex, np.complexfloating)):
            return np.dtype('complex128')
        if isinstance(v, SV):
            if v.t.sort != T.Z:
                kind = 'f'
        elif isinstance(v, (float, np.floating, SD)):
            kind = 'f'
    return np.dtype('float64') if kind == 'f' else np.dtype('int64')


def is_sym(a):
    """Does the value contain symbolic data?"""
    if isinstance(a, SymArray) or is_symscalar(a) or isinstance(a, SB):
        return True
    if getattr(a, '_is_larr', False):           # symbolic-length array (symnp/larr.py)
        return True
    if isinstance(a, np.ndarray):
        return a.dtype == object and a.size > 0 and any(
            is_symscalar(v) or isinstance(v, SB) for v in a.ravel()[:8])
    if isinstance(a, (list, tuple)):
        return any(is_sym(v) for v in a)
    if hasattr(a, 'space'):                     # ODL elements
        if hasattr(a, 'parts'):
            return any(is_sym(p) for p in a.parts)
        d = getattr(a, 'data', None)
        return isinstance(d, SymArray)
    return False


# ------------------------------------------------------------- ufunc layer
_METHOD_UFUNCS = {'sqrt', 'exp', 'log', 'sin', 'cos', 'tan', 'conjugate', 'arccos'}
_NO_OBJECT_LOOP = {'isnan', 'isfinite', 'isinf', 'signbit'}


def _shadow(v):
    """All-dims-1 stand-in (filled with ones) with the claimed dtype: numpy's
    own type resolution and casting rules are applied to the shadows first."""
    if isinstance(v, SymArray):
        return np.ones((1,) * v.ndim, dtype=real_dtype(v._fake))
    if isinstance(v, np.ndarray):
        if v.dtype == object:
            return np.ones((1,) * v.ndim, dtype=_guess(v))
        return np.ones((1,) * v.ndim, dtype=v.dtype)
    if isinstance(v, SC):
        return 1j
    if isinstance(v, SV):
        return 1 if v.t.sort == T.Z else 1.0
    if isinstance(v, SD):
        return 1.0
    if isinstance(v, SB):
        return True
    if isinstance(v, (list, tuple)):
        try:
            return _shadow(to_object_array(v))
        except (ValueError, TypeError):
            return v
    return v


def _plain(v):
    return v.view(np.ndarray) if isinstance(v, SymArray) else v


def _hygiene(a, kind):
    """Lift raw Python numbers inside an object array to engine scalars."""
    if isinstance(a, np.ndarray) and a.dtype == object:
        flat = a.ravel() if a.flags.c_contiguous else None
        it = np.ndindex(a.shape)
        for idx in it:
            v = a[idx]
            if not is_symscalar(v):
                a[idx] = _coerce_entry(v, kind)
    return a


def _shadow_dtype(ufunc, method, inputs, out, kw):
    if method == 'at':
        return None
    sh_in = [_shadow(v) for v in inputs]
    skw = {}
    for k, v in kw.items():
        if k == 'where':
            continue
        if k == 'dtype' and v is not None:
            v = real_dtype(v)
        if k == 'initial':
            v = _shadow(v)
        skw[k] = v
    if out is not None:
        skw['out'] = tuple(_shadow(o) if o is not None else None for o in out)
    if method == 'reduceat':
        sh_in[1] = [0]
    return getattr(ufunc, method)(*sh_in, **skw)


def array_ufunc(ufunc, method, inputs, out, kw):
    name = ufunc.__name__
    # 1. dtype shadow: raises exactly what numpy would raise for the claimed dtypes
    with np.errstate(all='ignore'):
        res_sh = _shadow_dtype(ufunc, method, inputs, out, kw)
    if isinstance(res_sh, tuple):
        res_dt = [np.asarray(r).dtype for r in res_sh]
    elif res_sh is None:
        res_dt = [None]
    else:
        res_dt = [np.asarray(res_sh).dtype]

    in_kind = 'f'
    for v in inputs:
        if isinstance(v, SymArray) and real_dtype(v._fake).kind == 'c':
            in_kind = 'c'
        if isinstance(v, SC):
            in_kind = 'c'

    kw = dict(kw)
    if 'dtype' in kw and kw['dtype'] is not None:
        kw['dtype'] = object
    ins = [_plain(v) for v in inputs]
    ins = [np.asarray(v, dtype=object) if isinstance(v, np.ndarray) and v.dtype != object and method != 'at'
           and any(isinstance(w, np.ndarray) and w.dtype == object for w in ins) else v for v in ins]
    if 'where' in kw and isinstance(kw['where'], np.ndarray) and kw['where'].dtype == object:
        w = kw['where']
        kw['where'] = np.array([bool(b) for b in w.ravel()], dtype=bool).reshape(w.shape)

    if name in _NO_OBJECT_LOOP and method == '__call__':
        a = np.asarray(ins[0], dtype=object)
        val = (name == 'isfinite')
        r = np.full(a.shape, val, dtype=bool)
        for idx in np.ndindex(a.shape):
            v = a[idx]
            if not is_symscalar(v):
                r[idx] = getattr(np, name)(v)
        if out is not None:
            out[0][...] = r
            return out[0]
        return r if r.ndim else bool(r)

    if ENG.merge_abs and method == '__call__' and in_kind != 'c' and \
            name in ('maximum', 'minimum', 'fmax', 'fmin', 'absolute', 'sign') and 'where' not in kw:
        # merging semantics: If-terms instead of forking (chosen per harness)
        arrs = [np.asarray(v, dtype=object) if not isinstance(v, np.ndarray) else v for v in ins]
        bc = np.broadcast_arrays(*arrs) if len(arrs) > 1 else [arrs[0]]
        r = np.empty(bc[0].shape, dtype=object)
        for idx in np.ndindex(r.shape):
            vs = [tolift(b[idx]) if not isinstance(b[idx], SD) else b[idx] for b in bc]
            if any(isinstance(v, SD) for v in vs):
                raise EngineGap('merge mode with dual numbers')
            if name in ('maximum', 'fmax'):
                r[idx] = SV(T.ite(T.le(vs[1].t, vs[0].t), vs[0].t, vs[1].t))
            elif name in ('minimum', 'fmin'):
                r[idx] = SV(T.ite(T.le(vs[0].t, vs[1].t), vs[0].t, vs[1].t))
            elif name == 'absolute':
                z = T.const(0) if vs[0].t.sort == T.R else T.iconst(0)
                r[idx] = SV(T.ite(T.le(z, vs[0].t), vs[0].t, T.neg(vs[0].t)))
            else:
                z = T.const(0) if vs[0].t.sort == T.R else T.iconst(0)
                one = T.const(1) if vs[0].t.sort == T.R else T.iconst(1)
                r[idx] = SV(T.ite(T.lt(z, vs[0].t), one, T.ite(T.lt(vs[0].t, z), T.neg(one), z)))
        if out is not None:
            _plain(out[0])[...] = r
            return out[0]
        res = r.view(SymArray)
        res._fake = FakeDtype(res_dt[0] if res_dt[0] is not None and res_dt[0].kind in 'fiu' else _guess(r))
        return res if res.ndim else res.view(np.ndarray)[()]

    if name == 'divmod' and method == '__call__':
        q = array_ufunc(np.floor_divide, '__call__', inputs, (out[0],) if out is not None and out[0] is not None else None,
                        dict(kw))
        r = array_ufunc(np.remainder, '__call__', inputs, (out[1],) if out is not None and out[1] is not None else None,
                        dict(kw))
        return q, r

    if name in _METHOD_UFUNCS and method == '__call__':
        ins = [_hygiene(np.array(v, dtype=object, copy=True) if isinstance(v, np.ndarray) else
                        np.array(_coerce_entry(v, in_kind), dtype=object), in_kind) for v in ins]
    if name == 'absolute' and in_kind == 'c':
        ins = [_hygiene(np.array(v, dtype=object, copy=True), 'c') for v in ins]
    if name == 'sign' and method == '__call__':
        a = np.asarray(ins[0], dtype=object)
        r = np.empty(a.shape, dtype=object)
        for idx in np.ndindex(a.shape):
            v = a[idx]
            if isinstance(v, SC):
                raise EngineGap('sign of a complex symbol')
            if is_symscalar(v):
                r[idx] = tolift(1) if v > 0 else (tolift(-1) if v < 0 else tolift(0))
            else:
                r[idx] = tolift(np.sign(v))
        if out is not None:
            _plain(out[0])[...] = r
            return out[0]
        res = r.view(SymArray)
        res._fake = FakeDtype(res_dt[0])
        return res if res.ndim else res[()]

    if out is not None:
        kw['out'] = tuple(_plain(o) for o in out)
    r = getattr(ufunc, method)(*ins, **kw)
    if method == 'at':
        return None
    if out is not None:
        # entries written into an array with a claimed complex dtype must be SC
        for o in out:
            if isinstance(o, SymArray) and real_dtype(o._fake).kind == 'c':
                _hygiene(_plain(o), 'c')
        return out[0] if len(out) == 1 else tuple(out)
    if isinstance(r, tuple):
        return tuple(_rewrap(x, dt) for x, dt in zip(r, res_dt))
    return _rewrap(r, res_dt[0])


def _rewrap(r, dt):
    if isinstance(r, np.ndarray):
        if r.dtype == object:
            if r.ndim == 0:
                return r[()]
            if dt is not None and dt.kind == 'b':
                return r         # array of SB / bools
            r = r.view(SymArray)
            r._fake = FakeDtype(dt if dt is not None and dt.kind in 'fciu' else _guess(r))
            if real_dtype(r._fake).kind == 'c':
                _hygiene(r.view(np.ndarray), 'c')
        return r
    return r


# ------------------------------------------------------------- factories
def sym_array(name, shape, dtype='float64', order='C', garbage=False):
    """Array of fresh symbols ``name_i`` (C-order numbering) with claimed dtype."""
    dt = np.dtype(dtype)
    shape = tuple(int(s) for s in (shape if isinstance(shape, (tuple, list)) else (shape,)))
    n = int(np.prod(shape)) if shape else 1
    flat = np.empty(n, dtype=object)
    for i in range(n):
        if dt.kind == 'c':
            flat[i] = SC(SV(T.var('%s_%dr' % (name, i), T.R, garbage)), SV(T.var('%s_%di' % (name, i), T.R, garbage)))
        elif dt.kind in 'iu':
            flat[i] = SV(T.var('%s_%d' % (name, i), T.Z))
        else:
            flat[i] = SV(T.var('%s_%d' % (name, i), T.R, garbage))
    a = flat.reshape(shape)
    if order == 'F':
        a = np.asfortranarray(a)
    a = a.view(SymArray)
    a._fake = FakeDtype(dt)
    return a


def entry_terms(a):
    """Flatten (C order) to a list of terms; complex entries give (re, im) pairs flattened."""
    out = []
    if is_symscalar(a) or not isinstance(a, np.ndarray):
        a = to_object_array(a)
    for v in np.asarray(a, dtype=object).ravel(order='C'):
        if isinstance(v, SC):
            out += [v.re.t, v.im.t]
        elif isinstance(v, SD):
            out += [v.v.t, v.t.t]
        elif isinstance(v, SB):
            out.append(v.t)
        elif isinstance(v, (complex, np.complexfloating)):
            out += [T.const(float(v.real)), T.const(float(v.imag))]
        else:
            out.append(lift(v))
    return out
