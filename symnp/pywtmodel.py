"""Model of the four PyWavelets functions that touch data in ODL's wavelet operators, for symbolic data.

Scope (stated in the C18 evidence): the **Haar wavelet on axes of even length at every level**.  There no boundary
extension is ever used (the pairs do not straddle the boundary), so every signal-extension mode gives the same
coefficients:  cA_k = (x_2k + x_2k+1)/sqrt(2),  cD_k = (x_2k - x_2k+1)/sqrt(2)  (sqrt(2) through the engine's sqrt
primitive with its axiom), synthesis x_2k = (a_k + d_k)/sqrt(2), x_2k+1 = (a_k - d_k)/sqrt(2).  wavedecn / waverecn
apply this separably over `axes` and recursively on the approximation; ravel_coeffs / unravel_coeffs follow the
documented layout (approximation first, then per level, coarsest first, keys sorted).  Everything that does not
touch data (Wavelet objects, wavedecn_shapes, wavedecn_size, dwtn_max_level, Modes) is the real library.  In
concrete mode (shadow validation, replay) the real library runs, so the model is compared with PyWavelets on every
explored path.  Any other wavelet or an odd length is an EngineGap (not decided)."""
import itertools
from fractions import Fraction

import numpy as np

from .scalars import SV, EngineGap
from .sarray import SymArray, wrap, to_object_array, real_dtype, is_sym
from . import terms as T


def _r():
    return SV(T.const(2)).sqrt() * SV(T.const(Fraction(1, 2)))      # 1/sqrt(2)


def _is_haar(wavelet):
    name = getattr(wavelet, 'name', wavelet)
    return str(name).lower() in ('haar', 'db1')


def _split(a, axis):
    n = a.shape[axis]
    if n % 2:
        raise EngineGap('pywt model: odd length %d (boundary extension not modelled)' % n)
    a = np.moveaxis(a, axis, -1)
    lo = np.empty(a.shape[:-1] + (n // 2,), dtype=object)
    hi = np.empty(a.shape[:-1] + (n // 2,), dtype=object)
    r = _r()
    for idx in np.ndindex(a.shape[:-1]):
        for k in range(n // 2):
            x0, x1 = a[idx + (2 * k,)], a[idx + (2 * k + 1,)]
            lo[idx + (k,)] = (x0 + x1) * r
            hi[idx + (k,)] = (x0 - x1) * r
    return np.moveaxis(lo, -1, axis), np.moveaxis(hi, -1, axis)


def _merge(lo, hi, axis):
    lo = np.moveaxis(lo, axis, -1)
    hi = np.moveaxis(hi, axis, -1)
    m = lo.shape[-1]
    out = np.empty(lo.shape[:-1] + (2 * m,), dtype=object)
    r = _r()
    for idx in np.ndindex(lo.shape[:-1]):
        for k in range(m):
            a, d = lo[idx + (k,)], hi[idx + (k,)]
            out[idx + (2 * k,)] = (a + d) * r
            out[idx + (2 * k + 1,)] = (a - d) * r
    return np.moveaxis(out, -1, axis)


def _axes(a, axes):
    if axes is None:
        return tuple(range(a.ndim))
    if isinstance(axes, (int, np.integer)):
        axes = (int(axes),)
    return tuple(int(x) % a.ndim for x in axes)


def dwtn(a, axes):
    cur = {'': a}
    for ax in axes:
        nxt = {}
        for key, arr in cur.items():
            lo, hi = _split(arr, ax)
            nxt[key + 'a'] = lo
            nxt[key + 'd'] = hi
        cur = nxt
    return cur


def idwtn(coeffs, axes):
    cur = dict(coeffs)
    for pos in reversed(range(len(axes))):
        nxt = {}
        for key in {k[:pos] for k in cur}:
            nxt[key] = _merge(cur[key + 'a'], cur[key + 'd'], axes[pos])
        cur = nxt
    return cur['']


class FakePyWT(object):
    def __init__(self, real):
        self._r = real

    def __getattr__(self, n):
        return getattr(self._r, n)

    def wavedecn(self, data, wavelet, mode='symmetric', level=None, axes=None):
        if not is_sym(data):
            return self._r.wavedecn(data, wavelet, mode=mode, level=level, axes=axes)
        if not _is_haar(wavelet):
            raise EngineGap('pywt model: only the Haar wavelet is modelled')
        dt = real_dtype(getattr(data, 'dtype', None))
        a = to_object_array(data)
        ax = _axes(a, axes)
        if level is None:
            level = self._r.dwtn_max_level([a.shape[k] for k in ax], wavelet)
        details = []
        for _ in range(int(level)):
            c = dwtn(a, ax)
            a = c.pop('a' * len(ax))
            details.append({k: wrap(v, dt) for k, v in c.items()})
        return [wrap(a, dt)] + details[::-1]

    def waverecn(self, coeffs, wavelet, mode='symmetric', axes=None):
        if not (is_sym(coeffs[0]) or any(is_sym(v) for d in coeffs[1:] for v in d.values())):
            return self._r.waverecn(coeffs, wavelet, mode=mode, axes=axes)
        if not _is_haar(wavelet):
            raise EngineGap('pywt model: only the Haar wavelet is modelled')
        dt = real_dtype(getattr(coeffs[0], 'dtype', None))
        a = to_object_array(coeffs[0])
        ax = _axes(a, axes)
        for d in coeffs[1:]:
            c = {k: to_object_array(v) for k, v in d.items()}
            c['a' * len(ax)] = a
            a = idwtn(c, ax)
        return wrap(a, dt)

    def ravel_coeffs(self, coeffs, axes=None):
        if not is_sym(coeffs[0]):
            return self._r.ravel_coeffs(coeffs, axes=axes)
        dt = real_dtype(getattr(coeffs[0], 'dtype', None))
        a = to_object_array(coeffs[0])
        parts = [a.ravel()]
        slices = [slice(a.size)]
        shapes = [a.shape]
        off = a.size
        for d in coeffs[1:]:
            sl, sh = {}, {}
            for key in sorted(d):
                v = to_object_array(d[key])
                parts.append(v.ravel())
                sl[key] = slice(off, off + v.size)
                sh[key] = v.shape
                off += v.size
            slices.append(sl)
            shapes.append(sh)
        return wrap(np.concatenate(parts), dt), slices, shapes

    def unravel_coeffs(self, arr, coeff_slices, coeff_shapes, output_format='wavedecn'):
        if not is_sym(arr):
            return self._r.unravel_coeffs(arr, coeff_slices, coeff_shapes, output_format=output_format)
        if output_format != 'wavedecn':
            raise EngineGap('pywt model: output_format %r' % output_format)
        dt = real_dtype(getattr(arr, 'dtype', None))
        a = to_object_array(arr)
        if a.ndim != 1:
            raise ValueError('unravel_coeffs expects a 1-d array')
        out = [wrap(a[coeff_slices[0]].reshape(coeff_shapes[0]).copy(), dt)]
        for sl, sh in zip(coeff_slices[1:], coeff_shapes[1:]):
            out.append({k: wrap(a[sl[k]].reshape(sh[k]).copy(), dt) for k in sl})
        return out
