"""Symbolic scalars and the path explorer.

SV  real / integer scalar (term of sort R or Z)
SB  boolean (comparison result); ``bool(SB)`` asks the explorer
SC  complex scalar = pair of SV
SD  dual number = value + eps * tangent (forward-mode derivative)
"""
import numbers
import os
import time
from fractions import Fraction

import numpy as np
import z3

from . import terms as T
from .sampler import Sampler


class Infeasible(BaseException):
    """Control flow of the explorer: the current decision prefix is infeasible."""


class PathBudget(BaseException):
    """Control flow: path budget of the configuration exceeded."""


class EngineGap(Exception):
    """The engine has no model for what the code under test asked for."""


def _is_nonlinear(roots):
    for t in T.postorder(roots):
        if t.op == 'div' or t.op == 'app':
            return True
        if t.op == 'mul' and t.args[0].op != 'const' and t.args[1].op != 'const':
            return True
    return False


def _isolated(fn, timeout_s):
    """Run fn() in a forked child; hard kill after timeout_s.  fn returns a JSON-able dict."""
    import json
    import os
    import select
    import signal
    r, w = os.pipe()
    pid = os.fork()
    if pid == 0:
        code = 0
        try:
            os.close(r)
            payload = json.dumps(fn()).encode()
            off = 0
            while off < len(payload):
                off += os.write(w, payload[off:off + 65536])
        except BaseException:      # noqa
            code = 1
        finally:
            os._exit(code)
    os.close(w)
    chunks = []
    deadline = time.time() + timeout_s
    timed_out = False
    while True:
        left = deadline - time.time()
        if left <= 0:
            timed_out = True
            break
        ready, _, _ = select.select([r], [], [], min(left, 1.0))
        if ready:
            data = os.read(r, 1 << 20)
            if not data:
                break
            chunks.append(data)
    os.close(r)
    if timed_out:
        try:
            os.kill(pid, signal.SIGKILL)
        except OSError:
            pass
    os.waitpid(pid, 0)
    if timed_out or not chunks:
        return {'r': 'unknown'}
    try:
        return json.loads(b''.join(chunks).decode())
    except ValueError:
        return {'r': 'unknown'}


class Engine(object):
    def __init__(self):
        self.solver = z3.Solver()
        self.reset_stats()
        self.active = False
        self.merge_abs = False
        self.skip_undefined = False
        self.skipped_undefined = 0
        self.sampler = Sampler()
        self.use_sampler = not os.environ.get('VERIF_NOSAMPLER')
        self.sampler_hits = 0
        self.snap = 0          # >0: concrete floats within 1e-13 of a fraction with denominator <= snap are read as it
        self.hash_tokens = False
        self.branch_timeout_ms = 10000
        self.max_paths = 10 ** 9
        self._begin([])

    def reset_stats(self):
        self.nqueries = 0
        self.tsolver = 0.0
        self.npaths = 0
        self.ninfeasible = 0
        self.unknown_branches = 0
        self.sampler_hits = 0
        self.skipped_undefined = 0

    def _begin(self, prefix):
        self.prefix = list(prefix)
        self.trace = []
        self.pc = []          # path condition: list of bool terms (decisions + assumptions)
        self.axioms = []      # path-local axioms of uninterpreted primitives
        self.nonlinear = False  # path condition / axioms contain nonlinear terms
        self.kinks = 0
        self.poison = set()   # names of 'undefined value' symbols created on this path
        self.hashed = []      # (term, token) pairs for hash-by-entailment
        self.fresh = 0
        self.notes = []
        self.solver.reset()
        self.solver.set('timeout', self.branch_timeout_ms)
        self.sampler.reset()

    # -- solver access
    def _check(self, *extra, terms=()):
        """Satisfiability of path condition + axioms (+ extra).  Linear problems use the incremental
        solver; as soon as nonlinear terms are involved the query is posed to a fresh solver inside a
        forked child with a hard kill (z3's own timeout is not reliable on nonlinear goals)."""
        t0 = time.time()
        self.nqueries += 1
        if self.nonlinear or (terms and _is_nonlinear(list(terms))):
            def run():
                s = self.fresh_solver()
                for e in extra:
                    s.add(e)
                return {'r': str(s.check())}
            r = _isolated(run, 2 * self.branch_timeout_ms / 1000.0 + 2)['r']
        else:
            r = str(self.solver.check(*extra))
        self.tsolver += time.time() - t0
        return r

    def fresh_solver_abs(self, timeout_ms=None):
        """Fresh solver over the app-abstracted path condition (pure NRA; see terms.to_z3_abs)."""
        s = z3.Solver()
        s.set('timeout', timeout_ms or self.branch_timeout_ms)
        for c in self.pc:
            s.add(T.to_z3_abs(c))
        for c in self.axioms:
            s.add(T.to_z3_abs(c))
        return s

    def fresh_solver(self, timeout_ms=None):
        """A non-incremental solver holding the current path condition and axioms.
        (z3's incremental push/pop mode uses a much weaker nonlinear core than the
        one-shot tactic pipeline, so every obligation is posed to a fresh solver.)"""
        s = z3.Solver()
        s.set('timeout', timeout_ms or self.branch_timeout_ms)
        for c in self.pc:
            s.add(T.to_z3(c))
        for c in self.axioms:
            s.add(T.to_z3(c))
        return s

    def _fresh_check(self, zc):
        t0 = time.time()
        self.nqueries += 1

        def run():
            s = self.fresh_solver()
            s.add(zc)
            return {'r': str(s.check())}
        r = _isolated(run, 2 * self.branch_timeout_ms / 1000.0 + 2)['r']
        self.tsolver += time.time() - t0
        return r

    def add_axiom(self, t):
        if t.op == 'true':
            return
        if T.FOLD and t.op == 'false' or (T.FOLD and not T.free_vars([t])):
            return          # axiom instance over folded (rounded) constants: carries no information
        self.axioms.append(t)
        if not self.nonlinear and _is_nonlinear([t]):
            self.nonlinear = True
        self.solver.add(T.to_z3(t))

    def fresh_name(self, stem):
        self.fresh += 1
        return '%s!%d' % (stem, self.fresh)

    def assume(self, cond):
        """Add an assumption to the path; drop the path if it becomes infeasible."""
        if isinstance(cond, SB):
            cond = cond.t
        if isinstance(cond, (bool, np.bool_)):
            if not cond:
                raise Infeasible()
            return
        if cond.op == 'true':
            return
        if cond.op == 'false':
            raise Infeasible()
        ct = self.sampler.witness(self.pc, self.axioms, cond)[0] if self.use_sampler else None
        self.pc.append(cond)
        if not self.nonlinear and _is_nonlinear([cond]):
            self.nonlinear = True
        self.solver.add(T.to_z3(cond))
        if ct:
            self.sampler_hits += 1
            return
        r = self._check()
        if r == 'unknown':
            r = self._fresh_check(z3.BoolVal(True))
        if r == 'unsat':
            self.ninfeasible += 1
            raise Infeasible()

    def entails(self, cond):
        if cond.op == 'true':
            return True
        if cond.op == 'false':
            return False
        return self._check(z3.Not(T.to_z3(cond)), terms=(cond,)) == 'unsat'

    def branch(self, cond):
        if cond.op == 'true':
            return True
        if cond.op == 'false':
            return False
        if not self.active:
            raise EngineGap('symbolic branch outside an explored function')
        # already decided on this path (same hash-consed condition): no solver call, no trace entry
        # (deterministic: the path condition at this point is the same on every re-execution)
        nid = T.not_(cond).id
        for c in self.pc:
            if c.id == cond.id:
                return True
            if c.id == nid:
                return False
        if self.use_sampler:
            # conditions over constants only (e.g. sqrt(5) < 1e-10): decided by evaluation when the margin is clear
            gv = self.sampler.ground(cond)
            if gv is not None:
                return gv
        i = len(self.trace)
        if i < len(self.prefix):
            d = self.prefix[i]
            self.trace.append((d, False))
        else:
            zc = T.to_z3(cond)
            ct, cf = self.sampler.witness(self.pc, self.axioms, cond) if self.use_sampler else (None, None)
            self.sampler_hits += bool(ct) + bool(cf)
            rt = 'sat' if ct else self._check(zc, terms=(cond,))
            if rt == 'unknown' and not self.nonlinear:
                rt = self._fresh_check(zc)
            rf = 'sat' if cf else self._check(z3.Not(zc), terms=(cond,))
            if rf == 'unknown' and not self.nonlinear:
                rf = self._fresh_check(z3.Not(zc))
            if rt == 'unknown' or rf == 'unknown':
                self.unknown_branches += 1
            can_t, can_f = rt != 'unsat', rf != 'unsat'
            if can_t and can_f:
                d = True
                self.trace.append((True, True))
            elif can_t:
                d = True
                self.trace.append((True, False))
            elif can_f:
                d = False
                self.trace.append((False, False))
            else:
                self.ninfeasible += 1
                raise Infeasible()
        c = cond if d else T.not_(cond)
        self.pc.append(c)
        if not self.nonlinear and _is_nonlinear([c]):
            self.nonlinear = True
        self.solver.add(T.to_z3(c))
        return d

    def explore(self, fn):
        """Run ``fn()`` once per feasible path; yields fn's return value.

        DFS by re-execution with a decision prefix.  While the generator is
        suspended the engine state (pc, axioms, solver) is that of the path
        just finished."""
        stack = [[]]
        self.active = True
        try:
            while stack:
                prefix = stack.pop()
                self._begin(prefix)
                try:
                    res = fn()
                except Infeasible:
                    # alternatives discovered before the dead end are still valid
                    self._schedule(stack)
                    continue
                self._schedule(stack)
                self.npaths += 1
                if self.npaths > self.max_paths:
                    raise PathBudget()
                yield res
        finally:
            self.active = False

    def _schedule(self, stack):
        for i in range(len(self.prefix), len(self.trace)):
            d, forked = self.trace[i]
            if forked:
                stack.append([t[0] for t in self.trace[:i]] + [not d])

    # -- hash tokens by entailment (C20)
    def hash_token(self, t):
        if t.op == 'const':
            v = t.val
            return hash(int(v)) if v.denominator == 1 else hash(float(v))
        for u, tok in self.hashed:
            if self.entails(T.eq(u, t)):
                return tok
        # a symbol entailed equal to a concrete constant hashes like it
        tok = 1000003 + 7919 * len(self.hashed)
        self.hashed.append((t, tok))
        return tok


ENG = Engine()


# ------------------------------------------------------------------ lift
def lift(x):
    """Python/NumPy number or SV -> term.  Raises TypeError otherwise."""
    if isinstance(x, SV):
        return x.t
    if isinstance(x, (bool, np.bool_)):
        return T.iconst(int(x))
    if isinstance(x, (int, np.integer)):
        return T.iconst(int(x))
    if isinstance(x, (float, np.floating)):
        x = float(x)
        if x != x or x in (float('inf'), float('-inf')):
            # a concrete nan/inf meets symbolic arithmetic: the value is undefined over the reals
            name = ENG.fresh_name('undef')
            ENG.poison.add(name)
            ENG.notes.append('undefined: concrete %r in symbolic arithmetic' % x)
            return T.var(name)
        if T.SNAP:
            return T.const(T.snap_float(x))
        return T.const(x)
    if isinstance(x, Fraction):
        return T.const(x)
    if isinstance(x, np.ndarray) and x.ndim == 0:
        return lift(x[()])
    raise TypeError(type(x))


class SB(object):
    __slots__ = ('t',)

    def __init__(self, t):
        self.t = t

    def __bool__(self):
        return ENG.branch(self.t)

    def __and__(self, o):
        o = _tob(o)
        return NotImplemented if o is None else SB(T.and_(self.t, o))

    __rand__ = __and__

    def __or__(self, o):
        o = _tob(o)
        return NotImplemented if o is None else SB(T.or_(self.t, o))

    __ror__ = __or__

    def __invert__(self):
        return SB(T.not_(self.t))

    def __eq__(self, o):
        o = _tob(o)
        return NotImplemented if o is None else SB(T.eq(self.t, o))

    def __ne__(self, o):
        o = _tob(o)
        return NotImplemented if o is None else SB(T.not_(T.eq(self.t, o)))

    __hash__ = None

    def __repr__(self):
        return 'SB(%s)' % T.to_str(self.t)


def _tob(o):
    if isinstance(o, SB):
        return o.t
    if isinstance(o, (bool, np.bool_)):
        return T.boolc(bool(o))
    return None


def _sum_of_squares(t):
    """syntactically a sum of squares (times non-negative constants): non-negative without asking the solver"""
    stack = [t]
    while stack:
        x = stack.pop()
        if x.op == 'add':
            stack.extend(x.args)
        elif x.op == 'const':
            if x.val < 0:
                return False
        elif x.op == 'mul':
            a, b = x.args
            if a is b:
                continue
            if a.op == 'const' and a.val >= 0:
                stack.append(b)
            elif b.op == 'const' and b.val >= 0:
                stack.append(a)
            else:
                return False
        elif x.op == 'to_real':
            stack.append(x.args[0])
        else:
            return False
    return True


def _definedness(den, what):
    """Fork on a zero denominator; on the zero branch return a poison symbol."""
    if den.op == 'const':
        if den.val != 0:
            return None
        nz = False
    else:
        nzc = T.not_(T.eq(den, T.const(0) if den.sort == T.R else T.iconst(0)))
        if ENG.skip_undefined:
            # configuration-level choice: inputs on which a denominator vanishes are outside the claim
            # (assumed away instead of explored as a poisoned path); counted
            if not any(c.id == nzc.id for c in ENG.pc):
                ENG.skipped_undefined += 1
                ENG.assume(nzc)
            return None
        nz = ENG.branch(nzc)
    if nz:
        return None
    name = ENG.fresh_name('undef')
    ENG.poison.add(name)
    ENG.notes.append('undefined: ' + what)
    return T.var(name, T.R)


class SV(object):
    __slots__ = ('t',)

    def __init__(self, t):
        self.t = t

    # ---- arithmetic
    def _lift(self, o):
        try:
            return lift(o)
        except TypeError:
            return None

    def __add__(self, o):
        if isinstance(o, (SC, complex, np.complexfloating)):
            return SC(self) + o
        if isinstance(o, SD):
            return SD(self) + o
        ot = self._lift(o)
        return NotImplemented if ot is None else SV(T.add(self.t, ot))

    __radd__ = __add__

    def __sub__(self, o):
        if isinstance(o, (SC, complex, np.complexfloating)):
            return SC(self) - o
        if isinstance(o, SD):
            return SD(self) - o
        ot = self._lift(o)
        return NotImplemented if ot is None else SV(T.sub(self.t, ot))

    def __rsub__(self, o):
        if isinstance(o, (SC, complex, np.complexfloating)):
            return o - SC(self)
        ot = self._lift(o)
        return NotImplemented if ot is None else SV(T.sub(ot, self.t))

    def __mul__(self, o):
        if isinstance(o, (SC, complex, np.complexfloating)):
            return SC(self) * o
        if isinstance(o, SD):
            return SD(self) * o
        ot = self._lift(o)
        return NotImplemented if ot is None else SV(T.mul(self.t, ot))

    __rmul__ = __mul__

    def __truediv__(self, o):
        if isinstance(o, (SC, complex, np.complexfloating)):
            return SC(self) / o
        if isinstance(o, SD):
            return SD(self) / o
        ot = self._lift(o)
        if ot is None:
            return NotImplemented
        p = _definedness(ot, 'division by zero')
        return SV(p) if p is not None else SV(T.div(self.t, ot))

    def __rtruediv__(self, o):
        if isinstance(o, (SC, complex, np.complexfloating)):
            return o / SC(self)
        ot = self._lift(o)
        if ot is None:
            return NotImplemented
        p = _definedness(self.t, 'division by zero')
        return SV(p) if p is not None else SV(T.div(ot, self.t))

    def __floordiv__(self, o):
        ot = self._lift(o)
        if ot is None:
            return NotImplemented
        if self.t.sort != T.Z or ot.sort != T.Z:
            raise EngineGap('floor division of reals')
        p = _definedness(ot, 'integer division by zero')
        return SV(p) if p is not None else SV(T.idiv(self.t, ot))

    def __mod__(self, o):
        ot = self._lift(o)
        if ot is None:
            return NotImplemented
        if self.t.sort != T.Z or ot.sort != T.Z:
            raise EngineGap('modulo of reals')
        p = _definedness(ot, 'integer modulo by zero')
        return SV(p) if p is not None else SV(T.imod(self.t, ot))

    def __neg__(self):
        return SV(T.neg(self.t))

    def __pos__(self):
        return self

    def __abs__(self):
        zero = T.const(0) if self.t.sort == T.R else T.iconst(0)
        c = T.le(zero, self.t)
        if ENG.merge_abs:
            return SV(T.ite(c, self.t, T.neg(self.t)))
        return self if ENG.branch(c) else SV(T.neg(self.t))

    def __pow__(self, p):
        if isinstance(p, SV):
            if p.t.op == 'const':
                p = float(p.t.val)
            else:
                return SV(T.app('pow', (T.to_real(self.t), T.to_real(p.t))))
        if isinstance(p, (int, np.integer)) or (isinstance(p, (float, np.floating)) and float(p) == int(p)):
            p = int(p)
            if p < 0:
                q = _definedness(self.t, 'negative power of zero')
                if q is not None:
                    return SV(q)
            return SV(T.ipow(self.t, p))
        if isinstance(p, (float, np.floating)):
            if float(p) == 0.5:
                return self.sqrt()
            return SV(T.app('pow', (T.to_real(self.t), T.const(float(p)))))
        return NotImplemented

    def __rpow__(self, b):
        raise EngineGap('symbolic exponent')

    # ---- uninterpreted primitives
    def sqrt(self):
        t = T.to_real(self.t)
        if t.op == 'const' and t.val >= 0:
            import math
            r = math.isqrt(t.val.numerator) if t.val.denominator == 1 else None
            if r is not None and r * r == t.val.numerator:
                return SV(T.const(r))
        if not _sum_of_squares(t) and not ENG.branch(T.le(T.const(0), t)):
            name = ENG.fresh_name('undef')
            ENG.poison.add(name)
            ENG.notes.append('undefined: sqrt of a negative number')
            return SV(T.var(name))
        r = T.app('sqrt', (t,))
        ENG.add_axiom(T.and_(T.le(T.const(0), r), T.eq(T.mul(r, r), t)))
        return SV(r)

    def trunc(self):
        """C cast float -> integer: rounding towards zero (an integer-sorted application with its defining axiom)"""
        if self.t.sort == T.Z:
            return self
        t = self.t
        if t.op == 'const':
            import math
            return SV(T.iconst(math.trunc(t.val)))
        r = T.app('trunc', (t,), T.Z)
        rr = T.to_real(r)
        one = T.const(1)
        nonneg = T.le(T.const(0), t)
        ENG.add_axiom(T.and_(T.or_(T.not_(nonneg), T.and_(T.le(rr, t), T.lt(t, T.add(rr, one)))),
                             T.or_(nonneg, T.and_(T.lt(T.sub(rr, one), t), T.le(t, rr)))))
        return SV(r)

    def _trig(self):
        t = T.to_real(self.t)
        c, s = T.app('cos', (t,)), T.app('sin', (t,))
        ENG.add_axiom(T.eq(T.add(T.mul(c, c), T.mul(s, s)), T.const(1)))
        return c, s

    def cos(self):
        if self.t.op == 'const' and self.t.val == 0:
            return SV(T.const(1))
        return SV(self._trig()[0])

    def sin(self):
        if self.t.op == 'const' and self.t.val == 0:
            return SV(T.const(0))
        return SV(self._trig()[1])

    def tan(self):
        c, s = self._trig()
        return SV(s) / SV(c)

    def exp(self):
        if self.t.op == 'const' and self.t.val == 0:
            return SV(T.const(1))
        r = T.app('exp', (T.to_real(self.t),))
        ENG.add_axiom(T.lt(T.const(0), r))
        return SV(r)

    def log(self):
        t = T.to_real(self.t)
        if not ENG.branch(T.lt(T.const(0), t)):
            name = ENG.fresh_name('undef')
            ENG.poison.add(name)
            ENG.notes.append('undefined: log of a non-positive number')
            return SV(T.var(name))
        if t.op == 'const' and t.val == 1:
            return SV(T.const(0))
        return SV(T.app('log', (t,)))

    def arccos(self):
        return SV(T.app('arccos', (T.to_real(self.t),)))

    def conjugate(self):
        return self

    conj = conjugate

    @property
    def real(self):
        return self

    @property
    def imag(self):
        return SV(T.const(0))

    # ---- comparisons
    def _cmp(self, o, f):
        if isinstance(o, SD):
            o = o.v
        ot = self._lift(o)
        if ot is None:
            return NotImplemented
        return SB(f(self.t, ot))

    def __eq__(self, o):
        if isinstance(o, SC):
            return SC(self) == o
        return self._cmp(o, T.eq)

    def __ne__(self, o):
        if isinstance(o, SC):
            return SC(self) != o
        return self._cmp(o, lambda a, b: T.not_(T.eq(a, b)))

    def __lt__(self, o):
        return self._cmp(o, T.lt)

    def __le__(self, o):
        return self._cmp(o, T.le)

    def __gt__(self, o):
        return self._cmp(o, lambda a, b: T.lt(b, a))

    def __ge__(self, o):
        return self._cmp(o, lambda a, b: T.le(b, a))

    def __hash__(self):
        if self.t.op == 'const':
            return ENG.hash_token(self.t)
        if not ENG.hash_tokens:
            raise TypeError('unhashable symbolic scalar')
        return ENG.hash_token(self.t)

    def __bool__(self):
        zero = T.const(0) if self.t.sort == T.R else T.iconst(0)
        return ENG.branch(T.not_(T.eq(self.t, zero)))

    def __float__(self):
        if self.t.op == 'const':
            return float(self.t.val)
        raise EngineGap('float() of a symbolic scalar outside a patched module')

    def __int__(self):
        if self.t.op == 'const':
            return int(self.t.val)
        raise EngineGap('int() of a symbolic scalar')

    def __index__(self):
        if self.t.op == 'const' and self.t.val.denominator == 1:
            return int(self.t.val)
        raise EngineGap('symbolic scalar used as an index')

    def __complex__(self):
        if self.t.op == 'const':
            return complex(float(self.t.val))
        raise EngineGap('complex() of a symbolic scalar')

    def __round__(self, n=None):
        raise EngineGap('round() of a symbolic scalar')

    def is_integer(self):
        return self.t.sort == T.Z

    @property
    def dtype(self):
        return np.dtype('int64') if self.t.sort == T.Z else np.dtype('float64')

    ndim = 0
    shape = ()
    size = 1

    def item(self):
        return self

    def __repr__(self):
        return 'SV(%s)' % T.to_str(self.t)

    def __format__(self, spec):
        return repr(self)


numbers.Real.register(SV)


def sv_const(v):
    return SV(T.const(v))


def sv_var(name, sort=T.R):
    return SV(T.var(name, sort))


def tolift(x):
    """Anything scalar-like -> SV (concrete numbers become constants)."""
    if isinstance(x, (SV, SC, SD)):
        return x
    if isinstance(x, np.ndarray) and x.ndim == 0:
        return tolift(x[()])
    return SV(lift(x))


# ---------------------------------------------------------------- complex
class SC(object):
    __slots__ = ('re', 'im')

    def __init__(self, re, im=0):
        self.re = re if isinstance(re, SV) else SV(lift(re))
        self.im = im if isinstance(im, SV) else SV(lift(im))

    @staticmethod
    def coerce(o):
        if isinstance(o, SC):
            return o
        if isinstance(o, SV):
            return SC(o, 0)
        if isinstance(o, (complex, np.complexfloating)):
            return SC(float(o.real), float(o.imag))
        if isinstance(o, (bool, np.bool_)):
            return SC(int(o), 0)
        if isinstance(o, (int, float, np.integer, np.floating, Fraction)):
            return SC(o, 0)
        if isinstance(o, np.ndarray) and o.ndim == 0:
            return SC.coerce(o[()])
        return None

    def _b(self, o, f, swap=False):
        o = SC.coerce(o)
        if o is None:
            return NotImplemented
        return f(o, self) if swap else f(self, o)

    def __add__(self, o):
        return self._b(o, lambda a, b: SC(a.re + b.re, a.im + b.im))

    __radd__ = __add__

    def __sub__(self, o):
        return self._b(o, lambda a, b: SC(a.re - b.re, a.im - b.im))

    def __rsub__(self, o):
        return self._b(o, lambda a, b: SC(a.re - b.re, a.im - b.im), True)

    def __mul__(self, o):
        return self._b(o, lambda a, b: SC(a.re * b.re - a.im * b.im, a.re * b.im + a.im * b.re))

    __rmul__ = __mul__

    @staticmethod
    def _div(a, b):
        d = b.re * b.re + b.im * b.im
        return SC((a.re * b.re + a.im * b.im) / d, (a.im * b.re - a.re * b.im) / d)

    def __truediv__(self, o):
        return self._b(o, SC._div)

    def __rtruediv__(self, o):
        return self._b(o, SC._div, True)

    def __neg__(self):
        return SC(-self.re, -self.im)

    def __pos__(self):
        return self

    def __pow__(self, p):
        if isinstance(p, (int, np.integer)) or (isinstance(p, (float, np.floating)) and float(p) == int(p)):
            p = int(p)
            if p < 0:
                return SC(1, 0) / (self ** (-p))
            r = SC(1, 0)
            for _ in range(p):
                r = r * self
            return r
        raise EngineGap('complex power with non-integer exponent')

    def exp(self):
        """exp of a complex constant (phase factors built from concrete grids); symbolic exponents are not encoded"""
        if self.re.t.op == 'const' and self.im.t.op == 'const':
            import cmath
            z = cmath.exp(complex(float(self.re.t.val), float(self.im.t.val)))
            return SC(SV(lift(z.real)), SV(lift(z.imag)))
        raise EngineGap('exp of a symbolic complex number')

    def conjugate(self):
        return SC(self.re, -self.im)

    conj = conjugate

    @property
    def real(self):
        return self.re

    @property
    def imag(self):
        return self.im

    def __abs__(self):
        return (self.re * self.re + self.im * self.im).sqrt()

    def sqrt(self):
        raise EngineGap('complex sqrt')

    def __eq__(self, o):
        o = SC.coerce(o)
        if o is None:
            return NotImplemented
        return SB(T.and_(T.eq(self.re.t, o.re.t), T.eq(self.im.t, o.im.t)))

    def __ne__(self, o):
        o = SC.coerce(o)
        if o is None:
            return NotImplemented
        return SB(T.not_(T.and_(T.eq(self.re.t, o.re.t), T.eq(self.im.t, o.im.t))))

    def __bool__(self):
        return bool(self != 0)

    def __hash__(self):
        return hash((hash(self.re), hash(self.im)))

    def __complex__(self):
        if self.re.t.op == 'const' and self.im.t.op == 'const':
            return complex(float(self.re.t.val), float(self.im.t.val))
        raise EngineGap('complex() of a symbolic scalar')

    def __float__(self):
        raise EngineGap('float() of a symbolic complex scalar')

    @property
    def dtype(self):
        return np.dtype('complex128')

    ndim = 0
    shape = ()
    size = 1

    def item(self):
        return self

    def __repr__(self):
        return 'SC(%s, %s)' % (T.to_str(self.re.t), T.to_str(self.im.t))


numbers.Complex.register(SC)


# ------------------------------------------------------------------ dual
class SD(object):
    """Dual number v + eps*t with SV parts: forward-mode AD of real code."""
    __slots__ = ('v', 't')

    def __init__(self, v, t=0):
        self.v = v if isinstance(v, SV) else SV(lift(v))
        self.t = t if isinstance(t, SV) else SV(lift(t))

    @staticmethod
    def co(o):
        if isinstance(o, SD):
            return o
        if isinstance(o, SV):
            return SD(o, 0)
        try:
            return SD(SV(lift(o)), 0)
        except TypeError:
            return None

    def _b(self, o, f, swap=False):
        o = SD.co(o)
        if o is None:
            return NotImplemented
        return f(o, self) if swap else f(self, o)

    def __add__(self, o):
        return self._b(o, lambda a, b: SD(a.v + b.v, a.t + b.t))

    __radd__ = __add__

    def __sub__(self, o):
        return self._b(o, lambda a, b: SD(a.v - b.v, a.t - b.t))

    def __rsub__(self, o):
        return self._b(o, lambda a, b: SD(a.v - b.v, a.t - b.t), True)

    def __mul__(self, o):
        return self._b(o, lambda a, b: SD(a.v * b.v, a.v * b.t + a.t * b.v))

    __rmul__ = __mul__

    @staticmethod
    def _div(a, b):
        return SD(a.v / b.v, (a.t * b.v - a.v * b.t) / (b.v * b.v))

    def __truediv__(self, o):
        return self._b(o, SD._div)

    def __rtruediv__(self, o):
        return self._b(o, SD._div, True)

    def __neg__(self):
        return SD(-self.v, -self.t)

    def __pos__(self):
        return self

    def __pow__(self, p):
        if isinstance(p, (int, np.integer)) or (isinstance(p, (float, np.floating)) and float(p) == int(p)):
            p = int(p)
            if p == 0:
                return SD(1, 0)
            return SD(self.v ** p, p * (self.v ** (p - 1)) * self.t)
        if isinstance(p, (float, np.floating)):
            if float(p) == 0.5:
                return self.sqrt()
            return SD(self.v ** p, float(p) * (self.v ** (float(p) - 1)) * self.t)
        return NotImplemented

    def sqrt(self):
        r = self.v.sqrt()
        return SD(r, self.t / (2 * r))

    def exp(self):
        e = self.v.exp()
        return SD(e, e * self.t)

    def log(self):
        return SD(self.v.log(), self.t / self.v)

    def sin(self):
        return SD(self.v.sin(), self.v.cos() * self.t)

    def cos(self):
        return SD(self.v.cos(), -(self.v.sin() * self.t))

    def __abs__(self):
        if self >= 0:       # forks; the kink itself (v == 0) is excluded, see _strict
            return SD(self.v, self.t)
        return SD(-self.v, -self.t)

    def _strict(self, o):
        """Comparisons of dual numbers decide which smooth piece a value lies on.  A tie is a
        (documented) non-differentiable point of the piecewise definition: the tie is excluded from
        the path (the property quantifies over points of differentiability); recorded in ENG.notes."""
        o = SD.co(o)
        if o is None:
            return None
        if ENG.active:
            tie = T.eq(self.v.t, o.v.t)
            if tie.op != 'false':
                ENG.notes.append('kink excluded: %s' % T.to_str(tie, 3))
                ENG.kinks += 1
                ENG.assume(T.not_(tie))
        return o

    def __lt__(self, o):
        o = self._strict(o)
        return NotImplemented if o is None else self.v < o.v

    def __le__(self, o):
        o = self._strict(o)
        return NotImplemented if o is None else self.v <= o.v

    def __gt__(self, o):
        o = self._strict(o)
        return NotImplemented if o is None else self.v > o.v

    def __ge__(self, o):
        o = self._strict(o)
        return NotImplemented if o is None else self.v >= o.v

    def __eq__(self, o):
        # exact ties of dual-number values select measure-zero shortcut paths (e.g. "scalar == 0") on
        # which forward-mode AD of the executed branch is not the derivative of the function: excluded
        o = self._strict(o)
        return NotImplemented if o is None else (self.v == o.v)

    def __ne__(self, o):
        o = self._strict(o)
        return NotImplemented if o is None else (self.v != o.v)

    __hash__ = None

    def __bool__(self):
        return bool(self.v)

    def conjugate(self):
        return self

    @property
    def real(self):
        return self

    @property
    def imag(self):
        return SD(0, 0)

    @property
    def dtype(self):
        return np.dtype('float64')

    ndim = 0
    shape = ()
    size = 1

    def __float__(self):
        raise EngineGap('float() of a dual number')

    def __repr__(self):
        return 'SD(%s | %s)' % (T.to_str(self.v.t), T.to_str(self.t.t))


numbers.Real.register(SD)

SCALARS = (SV, SC, SD)


def is_symscalar(x):
    return isinstance(x, SCALARS)
