"""Entry point used by ./check (and by fresh-process replays)."""
import os
import sys

VERIF = os.path.dirname(os.path.dirname(os.path.abspath(__file__)))
if VERIF not in sys.path:
    sys.path.insert(0, VERIF)

from symnp.runner import main  # noqa: E402

if __name__ == '__main__':
    sys.exit(main())
