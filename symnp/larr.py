"""1-d arrays of SYMBOLIC LENGTH.

``LArr`` stands for an ndarray whose length is a solver integer.  Its contents are a function from
the (symbolic) integer index to a (symbolic) value; slicing with symbolic bounds follows Python's
``slice.indices`` semantics exactly (clamping, negative wrap, ``None`` defaults, steps +1/-1); a
slice is a *live* view of its base like a NumPy view; an assignment ``a[s] = v`` snapshots ``v``
and replaces the content function by ``i -> ite(i selected by s, v[k(i)], old(i))``.  Shape
mismatches raise ``ValueError`` as NumPy does (the comparison of the two symbolic lengths is a
branch decided by the solver).  Element-wise arithmetic, ``np.diff`` and ``np.arange`` are
provided by ``LProxy`` (a layer over the module's installed ``np`` proxy).

With this, real index-arithmetic code (odl.util.numerics.resize_array and its helpers) runs for
ALL lengths and offsets at once; the value at a fresh symbolic position is then compared with a
reference rule by the solver (linear integer arithmetic + uninterpreted content functions).
Not provided (EngineGap): reductions over a symbolic length, steps other than +-1, integer and
fancy indexing, more than one axis."""
import numpy as np

from . import terms as T
from .sarray import FakeDtype
from .scalars import SB, SV, EngineGap, lift


def is_sym(x):
    return isinstance(x, (SV, SB))


def ite(c, a, b):
    """Dual-mode if-then-else on values."""
    if isinstance(c, SB):
        if c.t.op == 'true':
            return a
        if c.t.op == 'false':
            return b
        return SV(T.ite(c.t, lift(a), lift(b)))
    return a if c else b


def both(a, b):
    """Dual-mode conjunction (no short-circuit, no branching)."""
    if isinstance(a, SB) or isinstance(b, SB):
        return a & b
    return bool(a) and bool(b)


def _clamp(v, length, neg_step):
    """One bound of ``slice.indices(length)`` (PySlice_AdjustIndices)."""
    if v < 0:
        v = v + length
        if v < 0:
            v = -1 if neg_step else 0
    elif v >= length:
        v = length - 1 if neg_step else length
    return v


def slice_indices(slc, length):
    """(start, step, count) selected by ``slc`` on an axis of ``length`` -- Python semantics."""
    step = 1 if slc.step is None else slc.step
    if is_sym(step):
        if step.t.op != 'const':
            raise EngineGap('symbolic slice step')
        step = int(step)
    if step not in (1, -1):
        raise EngineGap('slice step %r on a symbolic-length array' % (step,))
    neg = step < 0
    if slc.start is None:
        start = length - 1 if neg else 0
    else:
        start = _clamp(slc.start, length, neg)
    if slc.stop is None:
        stop = -1 if neg else length
    else:
        stop = _clamp(slc.stop, length, neg)
    cnt = (start - stop) if neg else (stop - start)
    if cnt < 0:
        cnt = 0
    return start, step, cnt


class _Flags(object):
    c_contiguous = True
    f_contiguous = True
    contiguous = True
    writeable = True
    owndata = True


class LArr(np.ndarray):
    """See the module docstring.  Subclasses ndarray only to pass ``isinstance`` checks."""
    __array_ufunc__ = None
    __array_priority__ = 1000
    _is_larr = True

    def __new__(cls, length, fn=None, base=None, start=0, step=1, dtype='float64'):
        self = np.ndarray.__new__(cls, (0,), dtype=object)
        self._len = length
        self._fn = fn
        self._base = base          # root LArr for views
        self._start = start
        self._step = step
        self._dt = np.dtype(dtype)
        return self

    def __array_finalize__(self, obj):
        pass

    # ---- ndarray surface
    shape = property(lambda self: (self._len,))
    ndim = property(lambda self: 1)
    size = property(lambda self: self._len)
    dtype = property(lambda self: FakeDtype(self._dt))
    flags = property(lambda self: _Flags())

    def __len__(self):
        raise EngineGap('len() of a symbolic-length array')

    def __iter__(self):
        raise EngineGap('iteration over a symbolic-length array')

    def __repr__(self):
        return 'LArr(len=%r%s)' % (self._len, ', view' if self._base is not None else '')

    # ---- contents
    def at(self, i):
        """Value at position ``i`` (0 <= i < len is the caller's responsibility)."""
        if self._base is not None:
            return self._base._fn(self._start + self._step * i)
        return self._fn(i)

    def frozen_fn(self):
        """Content function of the current contents (a snapshot, unaffected by later writes)."""
        if self._base is not None:
            f, s, st = self._base._fn, self._start, self._step
            return lambda k: f(s + st * k)
        return self._fn

    def ravel(self, order='C'):
        return self

    def reshape(self, *shape, **kw):
        raise EngineGap('reshape of a symbolic-length array')

    def copy(self, order='C'):
        return LArr(self._len, self.frozen_fn(), dtype=self._dt)

    def astype(self, dtype, **kw):
        return LArr(self._len, self.frozen_fn(), dtype=dtype)

    def fill(self, value):
        self[slice(None)] = value

    # ---- indexing
    @staticmethod
    def _key(key):
        if isinstance(key, tuple):
            key = [k for k in key if k is not Ellipsis]
            if len(key) == 0:
                return slice(None)
            if len(key) != 1:
                raise EngineGap('index with %d entries on a 1-d symbolic-length array' % len(key))
            key = key[0]
        if key is Ellipsis:
            return slice(None)
        if isinstance(key, (int, np.integer)) or (isinstance(key, SV) and key.is_integer()):
            return key
        if not isinstance(key, slice):
            raise EngineGap('index %r on a symbolic-length array' % (key,))
        return key

    def _int_index(self, i):
        """Position of integer index ``i`` (negative = from the end); IndexError outside the array as in NumPy."""
        n = self._len
        if i < 0:
            i = i + n
        if not bool(both(i >= 0, i < n)):
            raise IndexError('index out of bounds for axis 0 with size %r' % (n,))
        return i

    def __getitem__(self, key):
        key = self._key(key)
        if not isinstance(key, slice):
            return self.at(self._int_index(key))
        s, st, cnt = slice_indices(key, self._len)
        root = self if self._base is None else self._base
        return LArr(cnt, None, base=root, start=self._start + self._step * s if self._base is not None else s,
                    step=self._step * st if self._base is not None else st, dtype=self._dt)

    def __setitem__(self, key, value):
        key = self._key(key)
        if not isinstance(key, slice):
            if isinstance(value, LArr):
                if not bool(value._len == 1):
                    raise ValueError('setting an array element with a sequence')
                value = value.at(0)
            i = self._int_index(key)
            key = slice(i, i + 1)
        s, st, cnt = slice_indices(key, self._len)
        if isinstance(value, LArr):
            vlen = value._len
            if self._same_view(value, s, st, cnt):
                return                                   # a[s] = a[s] (the tail of ``a[s] += v``)
            src = value.frozen_fn()
            bcast = bool(vlen == 1)
            if not bcast and not bool(vlen == cnt):
                raise ValueError('could not broadcast input array from shape (%r,) into shape (%r,)' % (vlen, cnt))
        elif isinstance(value, np.ndarray) and value.ndim > 0:
            raise EngineGap('concrete array assigned into a symbolic-length array')
        else:
            src, bcast = (lambda k, v=value: v), True
        if self._base is not None:
            root, s, st = self._base, self._start + self._step * s, self._step * st
        else:
            root = self
        old = root._fn

        def new(i, old=old, src=src, s=s, st=st, cnt=cnt, bcast=bcast):
            k = (i - s) * st
            return ite(both(k >= 0, k < cnt), src(0 if bcast else k), old(i))
        root._fn = new

    def _same_view(self, value, s, st, cnt):
        if value._base is None:
            return False
        root = self if self._base is None else self._base
        if value._base is not root:
            return False
        if self._base is not None:
            s, st = self._start + self._step * s, self._step * st
        try:
            return (lift(value._start) is lift(s)) and value._step == st and (lift(value._len) is lift(cnt))
        except TypeError:
            return False

    # ---- arithmetic (results are snapshots)
    def _binary(self, other, op):
        fa, la = self.frozen_fn(), self._len
        if isinstance(other, LArr):
            fb, lb = other.frozen_fn(), other._len
            if bool(la == lb):
                n, ba, bb = la, False, False
            elif bool(la == 1):
                n, ba, bb = lb, True, False
            elif bool(lb == 1):
                n, ba, bb = la, False, True
            else:
                raise ValueError('operands could not be broadcast together with shapes (%r,) (%r,)' % (la, lb))
            return LArr(n, lambda k: op(fa(0 if ba else k), fb(0 if bb else k)), dtype=self._dt)
        if isinstance(other, np.ndarray) and other.ndim > 0:
            raise EngineGap('concrete array combined with a symbolic-length array')
        return LArr(la, lambda k: op(fa(k), other), dtype=self._dt)

    def __add__(self, o):
        return self._binary(o, lambda a, b: a + b)

    __radd__ = __add__

    def __sub__(self, o):
        return self._binary(o, lambda a, b: a - b)

    def __rsub__(self, o):
        return self._binary(o, lambda a, b: b - a)

    def __mul__(self, o):
        return self._binary(o, lambda a, b: a * b)

    __rmul__ = __mul__

    def __truediv__(self, o):
        return self._binary(o, lambda a, b: a / b)

    def __neg__(self):
        f = self.frozen_fn()
        return LArr(self._len, lambda k: -f(k), dtype=self._dt)

    def _inplace(self, o, op):
        res = self._binary(o, op)
        if not bool(res._len == self._len):
            raise ValueError('non-broadcastable output operand with shape (%r,)' % (self._len,))
        self[slice(None)] = res
        return self

    def __iadd__(self, o):
        return self._inplace(o, lambda a, b: a + b)

    def __isub__(self, o):
        return self._inplace(o, lambda a, b: a - b)

    def __imul__(self, o):
        return self._inplace(o, lambda a, b: a * b)

    def __itruediv__(self, o):
        return self._inplace(o, lambda a, b: a / b)


class _AllTrue(object):
    """Result of an entry-wise predicate that holds for every entry of a symbolic-length array."""

    def __init__(self, length):
        self.length = length


class LProxy(object):
    """Layer over a module's ``np`` that understands ``LArr`` (everything else is delegated)."""

    def __init__(self, inner, garbage_fn):
        self.__dict__['_inner'] = inner
        self.__dict__['_garbage'] = garbage_fn      # previous contents of fresh arrays (an uninterpreted function)

    def __getattr__(self, n):
        return getattr(self._inner, n)

    def asarray(self, a, dtype=None, order=None, **kw):
        if isinstance(a, LArr):
            return a
        return self._inner.asarray(a, dtype=dtype, order=order, **kw)

    def empty(self, shape, dtype=None, order='C', **kw):
        shp = tuple(shape) if isinstance(shape, (tuple, list)) else (shape,)
        if any(is_sym(s) and s.t.op != 'const' for s in shp):
            if len(shp) != 1:
                raise EngineGap('symbolic shape with more than one axis')
            g = self._garbage
            return LArr(shp[0], lambda i: g(i), dtype=dtype or 'float64')
        return self._inner.empty(shape, dtype=dtype, order=order, **kw)

    def diff(self, a, n=1, axis=-1):
        if isinstance(a, LArr):
            if n != 1 or axis not in (0, -1):
                raise EngineGap('np.diff variant on a symbolic-length array')
            f, m = a.frozen_fn(), a._len - 1
            if m < 0:
                m = 0
            return LArr(m, lambda k: f(k + 1) - f(k), dtype=a._dt)
        return self._inner.diff(a, n=n, axis=axis)

    def arange(self, *a, **k):
        if any(is_sym(x) and x.t.op != 'const' for x in a):
            if len(a) == 1:
                lo, hi = 0, a[0]
            elif len(a) == 2:
                lo, hi = a
            else:
                raise EngineGap('np.arange with a step and symbolic bounds')
            m = hi - lo
            if m < 0:
                m = 0
            return LArr(m, lambda i: lo + i, dtype=k.get('dtype') or 'int64')
        return self._inner.arange(*a, **k)

    def isfinite(self, a, *args, **k):
        if isinstance(a, LArr):
            return _AllTrue(a._len)          # exact arithmetic: every entry is a finite number
        return self._inner.isfinite(a, *args, **k)

    def where(self, cond, *xy):
        if isinstance(cond, _AllTrue):
            return xy[0]
        if any(isinstance(v, LArr) for v in (cond,) + tuple(xy)):
            raise EngineGap('np.where on symbolic-length arrays')
        return self._inner.where(cond, *xy)

    def empty_like(self, a, dtype=None, order='K', subok=True, shape=None):
        if isinstance(a, LArr):
            return self.empty((a._len,), dtype=dtype or a._dt)
        return self._inner.empty_like(a, dtype=dtype, order=order, subok=subok, shape=shape)

    def swapaxes(self, a, axis1, axis2):
        if isinstance(a, LArr):
            if axis1 not in (0, -1) or axis2 not in (0, -1):
                raise EngineGap('swapaxes on a 1-d symbolic-length array')
            return a
        return self._inner.swapaxes(a, axis1, axis2)

    def _binop(self, name, op, a, b, out=None, **k):
        if isinstance(a, LArr) or isinstance(b, LArr) or isinstance(out, LArr):
            if k:
                raise EngineGap('np.%s keyword %s on symbolic-length arrays' % (name, sorted(k)))
            la = a if isinstance(a, LArr) else None
            res = la._binary(b, op) if la is not None else b._binary(a, lambda x, y: op(y, x))
            if out is None:
                return res
            if not isinstance(out, LArr):
                raise EngineGap('concrete out for symbolic-length operands')
            if not bool(res._len == out._len):
                raise ValueError('operands could not be broadcast together with shapes (%r,) (%r,)'
                                 % (res._len, out._len))
            out[slice(None)] = res
            return out
        return getattr(self._inner, name)(a, b, out=out, **k) if out is not None else getattr(self._inner, name)(a, b, **k)

    def subtract(self, a, b, out=None, **k):
        return self._binop('subtract', lambda x, y: x - y, a, b, out, **k)

    def add(self, a, b, out=None, **k):
        return self._binop('add', lambda x, y: x + y, a, b, out, **k)

    def multiply(self, a, b, out=None, **k):
        return self._binop('multiply', lambda x, y: x * y, a, b, out, **k)

    def sum(self, a, *args, **k):
        if isinstance(a, LArr):
            raise EngineGap('reduction over a symbolic length')
        return self._inner.sum(a, *args, **k)
