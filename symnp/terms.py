"""Hash-consed term DAG (sorts R, Z, B) with light simplification.

Terms are the values that the real ODL/NumPy code computes on when it is
executed symbolically.  They are cheap Python objects; a z3 expression is
materialised (memoised) only when a term takes part in a solver query, and
the same DAG can be evaluated concretely (floats / Fractions) for the
shadow validation of the engine and for replays.
"""
from fractions import Fraction
import math

import z3

R, Z, B = 'R', 'Z', 'B'
FOLD = False     # fold applications of primitives to constants into (rounded) constants
SNAP = 0         # >0: floats within 1e-13 of a fraction with denominator <= SNAP are read as that fraction

_TABLE = {}
_NEXT = [0]


class T(object):
    __slots__ = ('op', 'args', 'sort', 'val', 'id', 'g')

    def __repr__(self):
        return to_str(self, 6)


def reset():
    """Forget all terms (call between independent configurations)."""
    _TABLE.clear()
    _Z3MEMO.clear()
    _Z3MEMO_ABS.clear()
    _NEXT[0] = 0


def _mk(op, args, sort, val=None):
    key = (op, tuple(a.id for a in args), sort, val)
    t = _TABLE.get(key)
    if t is None:
        t = T()
        t.op, t.args, t.sort, t.val = op, tuple(args), sort, val
        t.g = False
        for a in args:
            if a.g:
                t.g = True        # mentions previous contents of an output ("garbage")
                break
        t.id = _NEXT[0]
        _NEXT[0] += 1
        _TABLE[key] = t
    return t


# ---------------------------------------------------------------- leaves
def const(v):
    if not isinstance(v, Fraction):
        if isinstance(v, float):
            if v != v or v in (float('inf'), float('-inf')):
                raise NonFinite(v)
            v = Fraction(*v.as_integer_ratio())
        else:
            v = Fraction(v)
    return _mk('const', (), R, v)


def iconst(v):
    return _mk('const', (), Z, Fraction(int(v)))


class NonFinite(ArithmeticError):
    """A concrete inf/nan met the symbolic world."""


def var(name, sort=R, garbage=False):
    t = _mk('var', (), sort, name)
    if garbage:
        t.g = True
    return t


TRUE = None
FALSE = None


def boolc(b):
    return _mk('true' if b else 'false', (), B)


def is_const(t):
    return t.op == 'const'


def to_real(t):
    if t.sort == R:
        return t
    if t.op == 'const':
        return _mk('const', (), R, t.val)
    return _mk('to_real', (t,), R)


def _unify(a, b):
    if a.sort == b.sort:
        return a, b, a.sort
    return to_real(a), to_real(b), R


def _c(v, sort):
    if FOLD and SNAP and sort == R and v.denominator > SNAP:
        # arithmetic on rounded constants (folded applications): re-read within the same tolerance
        fr = v.limit_denominator(SNAP)
        if abs(fr - v) <= Fraction(1, 10 ** 13) * max(1, abs(fr)):
            v = fr
    return _mk('const', (), sort, v)


# ------------------------------------------------------------ arithmetic
def add(a, b):
    a, b, s = _unify(a, b)
    if a.op == 'const':
        if b.op == 'const':
            return _c(a.val + b.val, s)
        if a.val == 0:
            return b
    elif b.op == 'const' and b.val == 0:
        return a
    if b.op == 'neg' and b.args[0] is a and not a.g:
        return _c(Fraction(0), s)
    if a.op == 'neg' and a.args[0] is b and not b.g:
        return _c(Fraction(0), s)
    return _mk('add', (a, b), s)


def neg(a):
    if a.op == 'const':
        return _c(-a.val, a.sort)
    if a.op == 'neg':
        return a.args[0]
    return _mk('neg', (a,), a.sort)


def sub(a, b):
    if a is b and not a.g:
        return _c(Fraction(0), a.sort)
    return add(a, neg(b))


def mul(a, b):
    a, b, s = _unify(a, b)
    if a.op == 'const':
        if b.op == 'const':
            return _c(a.val * b.val, s)
        if a.val == 0:
            # 0 * (previous contents of an output) is kept as a term: in floats it is NaN for
            # non-finite contents, so the dependency must stay visible (see Ctx taint check)
            return _mk('mul', (a, b), s) if b.g else a
        if a.val == 1:
            return b
        if a.val == -1:
            return neg(b)
    elif b.op == 'const':
        if b.val == 0:
            return _mk('mul', (b, a), s) if a.g else b
        if b.val == 1:
            return a
        if b.val == -1:
            return neg(a)
        a, b = b, a          # constants first
    return _mk('mul', (a, b), s)


def div(a, b):
    """Real division.  The caller has established b != 0 (definedness rule)."""
    a = to_real(a)
    b = to_real(b)
    if b.op == 'const':
        return mul(_c(1 / b.val, R), a)
    if a.op == 'const' and a.val == 0:
        return a
    if a is b:
        return _c(Fraction(1), R)
    return _mk('div', (a, b), R)


def idiv(a, b):
    """Python floor division on integers."""
    if a.op == 'const' and b.op == 'const':
        return iconst(int(a.val) // int(b.val))
    return _mk('idiv', (a, b), Z)


def imod(a, b):
    if a.op == 'const' and b.op == 'const':
        return iconst(int(a.val) % int(b.val))
    return _mk('imod', (a, b), Z)


def ipow(a, n):
    n = int(n)
    if n == 0:
        return _c(Fraction(1), a.sort)
    r = a
    for _ in range(abs(n) - 1):
        r = mul(r, a)
    if n < 0:
        return div(_c(Fraction(1), R), r)
    return r


def ite(c, a, b):
    if c.op == 'true':
        return a
    if c.op == 'false':
        return b
    a, b, s = _unify(a, b)
    if a is b:
        return a
    return _mk('ite', (c, a, b), s)


def snap_float(x):
    ex = Fraction(*float(x).as_integer_ratio())
    if SNAP:
        fr = ex.limit_denominator(SNAP)
        if fr != ex and abs(fr - ex) <= Fraction(1, 10 ** 13) * max(1, abs(fr)):
            return fr
    return ex


def app(fname, args, sort=R):
    if FOLD and fname in _PYFUN and all(a.op == 'const' for a in args):
        try:
            v = _PYFUN[fname](*[float(a.val) for a in args])
            if v == v and abs(v) != float('inf'):
                return const(snap_float(v)) if sort == R else iconst(int(v))
        except (ValueError, OverflowError):
            pass
    return _mk('app', tuple(args), sort, fname)


# --------------------------------------------------------------- boolean
def _cmp(op, a, b, pyop):
    a, b, _ = _unify(a, b)
    if a.op == 'const' and b.op == 'const':
        return boolc(pyop(a.val, b.val))
    return _mk(op, (a, b), B)


def lt(a, b):
    if a is b:
        return boolc(False)
    return _cmp('lt', a, b, lambda x, y: x < y)


def le(a, b):
    if a is b:
        return boolc(True)
    return _cmp('le', a, b, lambda x, y: x <= y)


def eq(a, b):
    if a is b:
        return boolc(True)
    if a.sort == B:
        return _mk('iff', (a, b), B)
    # x / y == 0  <=>  x == 0   (every division term is created under the path condition y != 0);
    # c * x == 0  <=>  x == 0   for a constant c != 0.  Keeps branch conditions linear where possible.
    for u, v in ((a, b), (b, a)):
        if v.op == 'const' and u.op == 'div' and (u.args[0].op == 'const' or v.val == 0):
            # x / y == c  <=>  x == c * y   (y != 0 holds on the path)
            return eq(u.args[0], mul(v, u.args[1]))
        if v.op == 'const' and v.val == 0:
            if u.op == 'div':
                return eq(u.args[0], _c(Fraction(0), u.args[0].sort))
            if u.op == 'mul' and u.args[0].op == 'const' and u.args[0].val != 0:
                return eq(u.args[1], _c(Fraction(0), u.args[1].sort))
            if u.op == 'neg':
                return eq(u.args[0], v)
    return _cmp('eq', a, b, lambda x, y: x == y)


def not_(a):
    if a.op == 'true':
        return boolc(False)
    if a.op == 'false':
        return boolc(True)
    if a.op == 'not':
        return a.args[0]
    return _mk('not', (a,), B)


def and_(*xs):
    out = []
    for x in xs:
        if x.op == 'false':
            return x
        if x.op == 'true':
            continue
        out.append(x)
    if not out:
        return boolc(True)
    if len(out) == 1:
        return out[0]
    return _mk('and', tuple(out), B)


def or_(*xs):
    out = []
    for x in xs:
        if x.op == 'true':
            return x
        if x.op == 'false':
            continue
        out.append(x)
    if not out:
        return boolc(False)
    if len(out) == 1:
        return out[0]
    return _mk('or', tuple(out), B)


# ------------------------------------------------- rational normal form
def num_den(root):
    """(N, D) with root == N / D and no division node in N, D outside uninterpreted applications
    and ite-branches.  Valid on the current path because every division term is created under the
    path condition 'denominator != 0' (definedness rule)."""
    memo = {}
    one = const(1)
    for t in postorder([root]):
        if t.sort == B:
            continue
        op = t.op
        if op in ('const', 'var', 'app', 'ite', 'idiv', 'imod'):
            memo[t.id] = (to_real(t) if t.sort == Z else t, one)
        elif op == 'to_real':
            memo[t.id] = memo[t.args[0].id]
        elif op == 'neg':
            n, d = memo[t.args[0].id]
            memo[t.id] = (neg(n), d)
        elif op == 'add':
            (n1, d1), (n2, d2) = memo[t.args[0].id], memo[t.args[1].id]
            if d1 is d2:
                memo[t.id] = (add(n1, n2), d1)
            else:
                memo[t.id] = (add(mul(n1, d2), mul(n2, d1)), mul(d1, d2))
        elif op == 'mul':
            (n1, d1), (n2, d2) = memo[t.args[0].id], memo[t.args[1].id]
            memo[t.id] = (mul(n1, n2), mul(d1, d2))
        elif op == 'div':
            (n1, d1), (n2, d2) = memo[t.args[0].id], memo[t.args[1].id]
            memo[t.id] = (mul(n1, d2), mul(d1, n2))
        else:
            raise ValueError(op)
    return memo[root.id]


def has_div(roots):
    return any(t.op == 'div' for t in postorder(roots))


# ------------------------------------------------------------ traversal
def postorder(roots):
    seen = set()
    order = []
    stack = [(r, False) for r in roots]
    while stack:
        t, done = stack.pop()
        if done:
            order.append(t)
            continue
        if t.id in seen:
            continue
        seen.add(t.id)
        stack.append((t, True))
        for a in t.args:
            if a.id not in seen:
                stack.append((a, False))
    return order


def free_vars(roots):
    return sorted({(t.val, t.sort) for t in postorder(roots) if t.op == 'var'})


def apps(roots):
    return [t for t in postorder(roots) if t.op == 'app']


def size(roots):
    return len(postorder(roots))


# ------------------------------------------------------------------- z3
_Z3MEMO = {}
_Z3FUN = {}


def z3fun(name, arity, sort=R):
    key = (name, arity, sort)
    f = _Z3FUN.get(key)
    if f is None:
        rs = z3.RealSort()
        f = z3.Function(name, *([rs] * arity + [rs if sort == R else z3.IntSort()]))
        _Z3FUN[key] = f
    return f


_Z3MEMO_ABS = {}


def to_z3_abs(root):
    """Like to_z3, but every uninterpreted application is replaced by a fresh variable (named by its
    node).  This drops congruence, i.e. weakens the formula: 'unsat' of the abstraction implies
    'unsat' of the original, and the abstraction lies in pure (non-linear) real arithmetic."""
    return to_z3(root, _Z3MEMO_ABS, True)


def to_z3(root, memo=None, abstract_apps=False):
    memo = _Z3MEMO if memo is None else memo
    if root.id in memo:
        return memo[root.id]
    for t in postorder([root]):
        if t.id in memo:
            continue
        op = t.op
        a = [memo[x.id] for x in t.args]
        if op == 'const':
            if t.sort == Z:
                e = z3.IntVal(int(t.val))
            else:
                e = z3.RealVal(t.val.numerator)
                if t.val.denominator != 1:
                    e = z3.Q(t.val.numerator, t.val.denominator)
        elif op == 'var':
            e = {R: z3.Real, Z: z3.Int, B: z3.Bool}[t.sort](t.val)
        elif op == 'add':
            e = a[0] + a[1]
        elif op == 'neg':
            e = -a[0]
        elif op == 'mul':
            e = a[0] * a[1]
        elif op == 'div':
            e = a[0] / a[1]
        elif op == 'idiv':
            e = _floordiv(a[0], a[1])
        elif op == 'imod':
            e = a[0] - a[1] * _floordiv(a[0], a[1])
        elif op == 'to_real':
            e = z3.ToReal(a[0])
        elif op == 'ite':
            e = z3.If(a[0], a[1], a[2])
        elif op == 'app' and abstract_apps:
            e = z3.Real('app!%s!%d' % (t.val, t.id)) if t.sort == R else z3.Int('app!%s!%d' % (t.val, t.id))
        elif op == 'app':
            e = z3fun(t.val, len(a), t.sort)(*[z3.ToReal(x) if x.sort() == z3.IntSort() else x for x in a])
        elif op == 'lt':
            e = a[0] < a[1]
        elif op == 'le':
            e = a[0] <= a[1]
        elif op == 'eq':
            e = a[0] == a[1]
        elif op == 'iff':
            e = a[0] == a[1]
        elif op == 'not':
            e = z3.Not(a[0])
        elif op == 'and':
            e = z3.And(*a)
        elif op == 'or':
            e = z3.Or(*a)
        elif op == 'true':
            e = z3.BoolVal(True)
        elif op == 'false':
            e = z3.BoolVal(False)
        else:
            raise ValueError(op)
        memo[t.id] = e
    return memo[root.id]


def _floordiv(a, b):
    """Python's floor(a / b) for z3 integers: z3's div is floor for b > 0 and
    keeps the remainder non-negative (i.e. rounds up) for b < 0."""
    q = a / b
    return z3.If(b > 0, q, z3.If(b * q == a, q, q - 1))


# ----------------------------------------------------------- evaluation
_PYFUN = {
    'sqrt': lambda x: math.sqrt(x) if x >= 0 else float('nan'),
    'cos': math.cos, 'sin': math.sin, 'exp': math.exp,
    'log': lambda x: math.log(x) if x > 0 else float('nan'),
    'arccos': lambda x: math.acos(x), 'arctan2': math.atan2,
    'tan': math.tan, 'trunc': lambda x: math.trunc(x),
    'pow': lambda x, p: math.pow(x, p) if x >= 0 else float('nan'),
}


def evaluate(roots, env, funs=None, exact=False):
    """Evaluate terms.  ``env`` maps variable names to numbers; ``funs`` maps
    uninterpreted function names to Python callables (defaults: the real
    mathematical functions).  Unknown variables evaluate to 0."""
    fn = dict(_PYFUN)
    if funs:
        fn.update(funs)
    val = {}
    single = isinstance(roots, T)
    rs = [roots] if single else list(roots)
    conv = (lambda q: q) if exact else float
    for t in postorder(rs):
        op = t.op
        a = [val[x.id] for x in t.args]
        if op == 'const':
            v = conv(t.val)
        elif op == 'var':
            v = env.get(t.val, False if t.sort == B else 0)
            if t.sort != B and not exact:
                v = float(v)
        elif op == 'add':
            v = a[0] + a[1]
        elif op == 'neg':
            v = -a[0]
        elif op == 'mul':
            v = a[0] * a[1]
        elif op == 'div':
            v = a[0] / a[1] if a[1] != 0 else float('nan')
        elif op == 'idiv':
            v = a[0] // a[1]
        elif op == 'imod':
            v = a[0] % a[1]
        elif op == 'to_real':
            v = a[0]
        elif op == 'ite':
            v = a[1] if a[0] else a[2]
        elif op == 'app':
            v = fn[t.val](*a)
        elif op == 'lt':
            v = a[0] < a[1]
        elif op == 'le':
            v = a[0] <= a[1]
        elif op in ('eq', 'iff'):
            v = a[0] == a[1]
        elif op == 'not':
            v = not a[0]
        elif op == 'and':
            v = all(a)
        elif op == 'or':
            v = any(a)
        elif op == 'true':
            v = True
        elif op == 'false':
            v = False
        else:
            raise ValueError(op)
        val[t.id] = v
    out = [val[r.id] for r in rs]
    return out[0] if single else out


# -------------------------------------------------------------- printing
def to_str(t, depth=8):
    if t.op == 'const':
        v = t.val
        return str(v.numerator) if v.denominator == 1 else '%d/%d' % (v.numerator, v.denominator)
    if t.op == 'var':
        return str(t.val)
    if t.op in ('true', 'false'):
        return t.op
    if depth <= 0:
        return '…'
    a = [to_str(x, depth - 1) for x in t.args]
    sym = {'add': ' + ', 'mul': '*', 'div': '/', 'lt': ' < ', 'le': ' <= ', 'eq': ' == ',
           'iff': ' <=> ', 'and': ' & ', 'or': ' | ', 'idiv': ' // ', 'imod': ' % '}
    if t.op in sym:
        return '(' + sym[t.op].join(a) + ')'
    if t.op == 'neg':
        return '-' + a[0]
    if t.op == 'not':
        return '!' + a[0]
    if t.op == 'app':
        return '%s(%s)' % (t.val, ', '.join(a))
    if t.op == 'ite':
        return 'ite(%s, %s, %s)' % tuple(a)
    if t.op == 'to_real':
        return a[0]
    return '%s(%s)' % (t.op, ', '.join(a))
