#!/usr/bin/env python3
"""Regenerates MANIFEST.json from the table below (kept in one place so it stays valid)."""
import json
import os

HERE = os.path.dirname(os.path.abspath(__file__))
BASE_CMD = ("cd /repo && /venv/bin/python -m pytest -ra -q -p no:cacheprovider --timeout=900 "
            "--continue-on-collection-errors")

TECH = 'bounded symbolic execution of the real ODL code on solver variables (symnp engine) + z3 SMT queries per path; counterexamples replayed on the unpatched code'

CHECKS = {
    'C13': dict(
        text='For every configuration in the stated finite family (3 methods x 10 paddings x axis lengths 2..5 (thorough 2..7) x ndim 1-2 (thorough 3) x cell sides x real/complex) the real finite_diff / PartialDerivative / Gradient / Divergence / Laplacian code is executed on arrays of solver variables and z3 shows that every output entry equals the ghost-cell reference stencil for ALL array contents and pad constants, in- and out-of-place, that adjoint(y) satisfies <Ax,y>=<x,A*y> as a polynomial identity, that Divergence = -Gradient.adjoint and that the derivative of the affine variant is the zero-padding operator. Bounded (sizes), exact over the reals.',
        note='Trusted: symnp engine (object-dtype numpy loops, dtype shadow, np proxy rules), z3, exact real arithmetic instead of floats; the ghost-cell oracle in harness/c13.py (symmetric = edge replication as pinned by the repository tests). One recorded known finding (forward/backward x order2 boundary rows).',
        ref='DESIGN.md section 4 C13'),
}

NOT_YET = {}


def main():
    props = [json.loads(l) for l in open(os.path.join(HERE, 'properties.jsonl'))]
    checks = []
    na = []
    for p in props:
        pid = p['id']
        if pid in CHECKS:
            c = CHECKS[pid]
            checks.append({
                'property_id': pid,
                'quick_cmd': './check %s --tier quick' % pid,
                'thorough_cmd': './check %s --tier thorough' % pid,
                'evidence_file': '/verif/evidence/%s.json' % pid,
                'replay_cmd_template': './check %s --replay {path}' % pid,
                'engine': 'symnp',
                'level_claimed': {'category': 'other', 'text': c['text'], 'design_ref': c['ref']},
                'level_note': c['note'],
                'technique': c.get('technique', TECH),
            })
        else:
            na.append({'property_id': pid, 'reason': NOT_YET.get(
                pid, 'check not landed yet in this build round (solver-based harness planned in DESIGN.md section 4); not claimed until it runs clean')})
    man = {
        'version': 1,
        'setup_cmd': './setup.sh',
        'hooks': {
            'guard': 'ODL_VERIF',
            'enable': 'not used: the checks rebind module globals (np, float, complex, BLAS getter) of the imported odl modules at run time inside the check process; no source hooks exist in /repo',
            'baseline_off_cmd': BASE_CMD,
            'source_commits': [],
            'add_only': True,
        },
        'engines': [{'name': 'symnp', 'path': 'symnp/', 'serves_properties': sorted(CHECKS),
                     'kind_free_text': 'path-forking symbolic execution of the real Python/NumPy code on arrays of solver variables; z3 5.1 decides each obligation; concrete replay on unpatched code'}],
        'checks': checks,
        'not_applicable': na,
        'notes': 'Exit codes: 0 held on everything explored (KNOWN-FINDING / INCONCLUSIVE lines possible), 1 replay-confirmed unlisted violation, 2 machinery fault. known_findings.json lists recorded and fixed defects.',
    }
    with open(os.path.join(HERE, 'MANIFEST.json'), 'w') as f:
        json.dump(man, f, indent=1)
    try:
        import jsonschema
        jsonschema.validate(man, json.load(open('/root/.vp/MANIFEST.schema.json')))
        print('MANIFEST.json valid; claimed:', sorted(CHECKS))
    except ImportError:
        print('written (jsonschema not available)')


if __name__ == '__main__':
    main()
