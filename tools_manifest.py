#!/usr/bin/env python3
"""Regenerates MANIFEST.json from the table below (kept in one place so it stays valid)."""
import json
import os

HERE = os.path.dirname(os.path.abspath(__file__))
BASE_CMD = ("cd /repo && /venv/bin/python -m pytest -ra -q -p no:cacheprovider --timeout=900 "
            "--continue-on-collection-errors")

TECH = ('bounded symbolic execution of the real ODL code on solver variables (symnp engine); per path and assertion an SMT '
        'obligation decided by z3 (after sound pre-passes: term identity, polynomial normal form modulo the axioms of '
        'sqrt/sin/cos, abstraction of applications); counterexamples only from z3, replayed on the unpatched code in a '
        'fresh process; thorough tier: sampled z3 unsat verdicts re-checked by cvc5')

CHECKS = {
    'C13': dict(
        text='For every configuration in the stated finite family (3 methods x 10 paddings x axis lengths 2..5 (thorough 2..7) x ndim 1-2 (thorough 3) x cell sides x real/complex) the real finite_diff / PartialDerivative / Gradient / Divergence / Laplacian code is executed on arrays of solver variables and z3 shows that every output entry equals the ghost-cell reference stencil for ALL array contents and pad constants, in- and out-of-place, that adjoint(y) satisfies <Ax,y>=<x,A*y> as a polynomial identity, that Divergence = -Gradient.adjoint and that the derivative of the affine variant is the zero-padding operator. Bounded (sizes), exact over the reals.',
        note='Trusted: symnp engine (object-dtype numpy loops, dtype shadow, np proxy rules), z3, exact real arithmetic instead of floats; the ghost-cell oracle in harness/c13.py (symmetric = edge replication as pinned by the repository tests). One recorded known finding (forward/backward x order2 boundary rows).',
        ref='DESIGN.md section 4 C13'),
}

CHECKS.update({
    'C01': dict(
        text='space.lincomb/multiply/divide and every element operator (+ - * / ** unary, in-place, reflected, scalar operands, zero/one/copy/assign/set_zero, power-space broadcasting) are executed with solver variables as entries, previous contents of out and scalars a, b (real, complex, integer); on every path of the size/dtype/contiguity dispatch tree (sizes straddling THRESHOLD_SMALL and, with generic scalars, THRESHOLD_MEDIUM as read from the module; C/F/strided/mixed layouts; 5 aliasing patterns; tensor, discretized, product and nested power spaces) z3 shows each output entry equal to the entry-wise formula over the pre-call values, operands unchanged, returned object is out, and no dependency on previous contents of out (NaN-taint).',
        note='Trusted: symnp engine, BLAS axpy/scal/copy contract stubs in the >= T_M regime (validated against real BLAS by concrete shadow runs), z3; exact arithmetic over R/Z/C instead of floats.',
        ref='DESIGN.md section 4 C01'),
    'C03': dict(
        text='For every operator recipe of an introspective registry (every concrete Operator class of odl must have a recipe or a stated not-encodable reason) the call protocol is executed on symbolic x and symbolic previous contents of out: op(x) in range, op(x,out=y) is y, y equals op(x) for all inputs and all previous contents (incl. the NaN-taint assertion), x keeps its terms, wrong-space input/out rejected before out is touched; wrappers additionally over an alias-returning leaf.',
        note='Trusted: symnp engine, registry recipes (spaces of 2-12 entries), z3. Not encodable (listed): FFT, wavelet, ray transform, deformation, numerical derivatives.',
        ref='DESIGN.md section 4 C03'),
    'C05': dict(
        text='For every linear operator recipe (built-ins x weightings x real/complex x options, expression classes, block operators, difference/resizing operators) and for enumerated expression trees over symbolic matrix leaves (depth <= 2 seeded subset quick, exhaustive + depth 3 seeded thorough; real/complex, plain/array-weighted) z3 decides inner(Ax,y) = inner(x,A*y) as a polynomial identity in x, y, scalars, vectors and matrix entries, using the real adjoint code and the real weighted inner products; A* maps range to domain; A.adjoint.adjoint(x) = A(x).',
        note='Trusted: symnp engine, z3; spaces of 2-12 entries. Exempt as the property says: Resampling, ray transforms, deformation. Two known findings recorded (nodes_on_bdry adjoints; complex scalar times real-to-complex operator).',
        ref='DESIGN.md section 4 C05'),
    'C10': dict(
        text='For every proximal factory with its options (data term, scalar/element step, symbolic lam/sigma), every functional recipe offering a proximal (incl. derived: translation, scalings, quadratic perturbation, separable sum, conjugate), operator-arithmetic wrappers over alias-safe leaves and the operator classes solvers apply in place, z3 shows that P(y,out=y) leaves exactly the terms of P(x) (abs/max/min/sign merged as if-then-else terms, so each configuration is one or few paths); solver call sites of the form op(v,out=v) are located by an AST scan and must be mapped.',
        note='Trusted: symnp engine (merge mode), z3; 2-4 entries. Lambert W and exp/log are uninterpreted (sufficient for aliasing equalities).',
        ref='DESIGN.md section 4 C10'),
    'C16': dict(
        text='resize_array and ResizingOperator are executed on arrays of solver variables for all (old length 1..5, new length 1..6, offset, 5 pad modes, 2 directions) in 1-d plus 2-d/3-d shape pairs; every output entry equals the index-map reference for all contents and pad constants, illegal combinations raise ValueError, inputs unchanged, out= honoured, crop-after-extend identity, forward/adjoint transposition, weighted adjoint identity, range grid contains the domain grid at the offset (also with nodes_on_bdry kwargs); the reference itself is cross-checked against numpy.pad concretely.',
        note='Trusted: symnp engine, z3, the index-map oracle in harness/c16.py.',
        ref='DESIGN.md section 4 C16'),
})
CHECKS.update({
    'C04': dict(
        text='Expression trees over uninterpreted leaves (UFOp: nonlinear, entries A_i(x) with A_i uninterpreted functions, implemented out-of-place and in-place; symbolic matrix operator; uninterpreted and linear functionals) are built with the real Operator/Functional overloads (+ - unary- * @ / ** scalar/vector left/right multiples, operator+vector, operator+scalar, reflected forms) and evaluated by the real expression classes out-of-place, in-place and aliased; z3 decides equality with a reference interpreter of the documented table modulo congruence, i.e. for every leaf behaviour, every point, scalar and vector; domain, range and soundness of the linearity flag are checked concretely per path. Trees: all of depth <= 1, seeded samples of depth 2 (quick 260+120, thorough 3000+1000) and depth 3 (thorough).',
        note='Trusted: symnp engine, z3 (QF_UFNRA), the 60-line reference interpreter in harness/c04.py. Leaves are deterministic functions of their argument.',
        ref='DESIGN.md section 4 C04'),
})
CHECKS.update({
    'C02': dict(
        text='x.inner(y), x.norm(), x.dist(y) of tensor (none/constant/array weighting; C/F/mixed layouts; real/complex), product (component weights) and discretized spaces (every nodes_on_bdry choice per side) are executed on symbolic elements; z3 decides equality with the documented weighted sums (weights of discretized spaces taken independently from partition.cell_sizes_vecs; |one|^2 = domain volume), norm^2 = inner(x,x) via the radicand of the code\'s own sqrt, p-norms for p in {1, inf, 3/2, 3} (pow uninterpreted, congruence), and the axioms: conjugate symmetry, linearity, positivity, definiteness, Cauchy-Schwarz (n<=3), homogeneity, triangle inequality (p=2: n<=2; p in {1,inf}: n=2), dist = norm of the difference, symmetry.',
        note='Trusted: symnp engine (BLAS nrm2/dot and np.linalg.norm contract stubs, validated by concrete shadow runs), z3. Exact where weights are dyadic, 1e-9 box tolerance where sqrt(fraction) scalings enter. One known finding (cell volume exactly 1 with nodes on the boundary).',
        ref='DESIGN.md section 4 C02'),
})
CHECKS.update({
    'C09': dict(
        text='Forward-mode AD of the real functional code: every functional recipe (built-ins and derived: sums, scalar multiples of either sign, argument/vector scaling, translation, composition with operators, product, quotient, quadratic perturbation, Bregman distance, conjugates) is evaluated on dual numbers x_i + eps d_i, giving the exact directional derivative of the values; z3 decides equality with inner(f.gradient(x), d) in the space\'s own weighted inner product and with f.derivative(x)(d) for all x, d (kinks excluded as path conditions), and decides |grad f(x) - grad f(y)|^2 <= L^2 |x - y|^2, L >= 0 for all x, y whenever grad_lipschitz is finite. Rational identities are first posed with cleared denominators and with uninterpreted applications abstracted (pure NRA).',
        note='Trusted: symnp engine incl. the calculus rules of sqrt/exp/log/pow on dual numbers, z3. Spaces of 2-4 entries (rn, array-weighted rn, uniform_discr, plain/weighted product spaces). One known finding (Huber on array-weighted spaces raises).',
        ref='DESIGN.md section 4 C09'),
})
CHECKS.update({
    'C07': dict(
        text='p = f.proximal(sigma)(x) is computed by the real proximal code on symbolic x for every functional recipe offering a proximal (built-ins and derived: translation, argument scaling of either sign, positive scaling, quadratic perturbation, separable sums incl. per-component steps, conjugates, Bregman distances); for a symbolic competitor z z3 refutes 2 sigma f(z) + |z-x|^2 < 2 sigma f(p) + |p-x|^2 on every pair of paths (f from the real functional code, norm from the space\'s own weighted inner product; case split on all abs/max/sort decisions), f(p) finite, indicator proximals idempotent, firm non-expansiveness for piecewise linear ones; norm-like (sqrt) and KL functionals by the first-order condition (x-p)/sigma = grad f(p) with the library gradient (tied to the values by C09).',
        note='Trusted: symnp engine, z3; dimension 1-2 (stated per recipe), sigma symbolic for a subset, dyadic otherwise; inequality goals that are refutable only outside the box [-8,8]^n count as holding on the box; np.finfo eps served as 0. Not decided: KL cross entropy (Lambert W), nuclear norm; L2-ball projections by values only in the thorough tier. Two known findings.',
        ref='DESIGN.md section 4 C07'),
})
CHECKS.update({
    'C06': dict(
        text='Forward-mode AD of the real operator code: every registry recipe with a derivative (nonlinear built-ins, ufunc operators, expression classes, block operators, affine difference/resizing operators, functionals as operators) is evaluated on dual numbers x_i + eps d_i; z3 decides equality of the tangent with op.derivative(x)(d) for all x, d; derivative(x) must be linear with the right domain/range and equal op for linear op. Expression trees (C04 grammar plus pointwise products) over leaves with uninterpreted values and uninterpreted Jacobians decide the chain, sum and product rules at the correct inner points for every leaf behaviour (all depth <= 1, 200 seeded depth-2 trees quick; 2500 + 500 depth-3 thorough).',
        note='Trusted: symnp engine incl. calculus rules on dual numbers, z3. Exact ties of dual values (kinks, == shortcuts) excluded. Complex operators outside. One known finding (PointwiseNorm.derivative on array-weighted base spaces raises).',
        ref='DESIGN.md section 4 C06'),
})
CHECKS.update({
    'C08': dict(
        text='f(x), f.convex_conj(y), the space inner product and both proximals are computed by the real code on symbolic x, y for every functional recipe with a conjugate (built-in pairs and derived: scalings, translation, linear/quadratic perturbation, scalar sum, separable sum, infimal convolution, default conjugate, Bregman); z3 decides Fenchel-Young on every pair of finite paths, the Fenchel equality at y = grad f(x), f** = f (values where finite and equal effective domains per path) and the Moreau decomposition prox_{sigma f}(x) + sigma prox_{f*/sigma}(x/sigma) = x, for all x, y.',
        note='Trusted: symnp engine, z3; n = 1-2, sigma = 1/2; KL by Moreau only (no values); sqrt-based functionals by values only in the thorough tier; np.finfo eps served as 0. One known finding (Huber on product / array-weighted spaces).',
        ref='DESIGN.md section 4 C08'),
    'C11': dict(
        text='The real loops of admm_linearized / adupdates / doubleprox_dc and of their *_simple references are executed on symbolic start points and data (dyadic 2x2 operators; L1, squared L2 (scaled/translated), box terms; several step-size choices incl. stepsize != 1, gamma != mu, element-valued inner steps) and z3 decides term-wise equality of all callback iterates and final states for niter 1..2; resumption is decided as an inductive step from an arbitrary symbolic state (k+1 at once = k then 1, k <= 2) for landweber (+projection), kaczmarz (fixed order), proximal_gradient, mlem, steepest_descent (constant step) and pdhg with x_relax=, y= (theta in {0, 1/2, 1}); callbacks observed exactly once per iteration.',
        note='Trusted: symnp engine (abs/max merged into if-then-else), z3. Outside: accelerated PDHG / proximal gradient (unexposed state), randomised orders, rounding.',
        ref='DESIGN.md section 4 C11'),
})
CHECKS.update({
    'C12': dict(
        text='Bounded reformulations decided for all start points / data / solutions: Landweber residual non-increasing for symbolic admissible omega; Kaczmarz sweep (fixed and random order, per-operator relaxation) does not increase the distance to a symbolic solution of a consistent system; CG energy error and CGN residual non-increasing per step (CG exact after dim steps: thorough tier); steepest descent with BacktrackingLineSearch does not increase a quadratic objective; power_method_opnorm estimate^2 <= lambda_max(A^T A); a symbolic KKT point is reproduced exactly (fixed point) by pdhg (plain and accelerated), proximal_gradient and accelerated_proximal_gradient; proximal gradient is Fejer monotone; douglas_rachford_pd and forward_backward_pd (internal dual state) equal a non-optimised restatement of the documented iteration for 1-3 operators with equal ranges.',
        note='Trusted: symnp engine, z3; dyadic 2x2 operators, 1-2 iterations. The property clause "drive the iterate towards optimality" (a limit) is outside: only fixed points and one-step monotonicity are decided. One known finding (forward_backward_pd relaxation aliased).',
        ref='DESIGN.md section 4 C12'),
})
CHECKS.update({
    'C14': dict(
        text='Partitions are built by the real factory code (np proxy installed in odl.discr.partition/grid and odl.set.domain) from symbolic limits (uniform, every per-side nodes_on_bdry choice, lengths 1..4, ndim 1-2) and symbolic strictly increasing coordinate vectors (non-uniform); z3 decides: boundaries strictly increasing from min to max, nodes inside their cells, sizes sum to the extent, cell side x count = extent for the requested node placement, boundary fractions; index(p) returns the containing cell and the documented fractional position for every p; slices (unit-step and strided, per-axis combinations), squeeze, byaxis, insert and append consist of exactly the selected cells; alternative uniform specifications give term-equal partitions. Multi-argument insert/append axis bookkeeping, the rounding specification (min,max,cell_sides) and the shared-grid / length-1 stride sequence are checked as concrete facts.',
        note='Trusted: symnp engine incl. searchsorted/isclose/linspace rules, z3. Preconditions stated: extent >= 1, |limits| <= 64, nodes on a limit or >= 1/8 away (np.isclose window).',
        ref='DESIGN.md section 4 C14'),
})
CHECKS.update({
    'C17': dict(
        text='np.<ufunc>(...) and the methods reduce / accumulate / outer / at / reduceat, plus the legacy x.ufuncs interface, are executed on tensor, discretized and power-space elements holding solver variables (real, float32-claimed, int64); the result terms must equal those of the same call on the raw arrays (this is an identity of terms: the check is about operand order, method, axis/keepdims/dtype keywords and out plumbing, not about the numerics of the ufunc), result kind / shape / dtype are compared with NumPy on concrete arrays of the same dtype, out given as element / tensor / ndarray (incl. dtype= different from out.dtype, partial outs of two-output ufuncs) must be returned by identity and hold the result (NaN-taint on previous contents), operands unchanged.',
        note='Trusted: symnp engine (object-dtype ufunc loops are the model of the numbers; dtype shadow reproduces NumPy casting rules). Memory sharing, asarray round trip, modf out plumbing and result types are concrete facts. One known finding (ProductSpaceElement as out of a NumPy ufunc call).',
        ref='DESIGN.md section 4 C17'),
})
CHECKS.update({
    'C20': dict(
        text='Constant weightings (all ordered class pairs, symbolic constants), IntervalProd (1-2d, symbolic limits, membership of a symbolic point), RectGrid and RectPartition (2-3 symbolic nodes) are built from solver variables; on every path of a == b the solver decides symmetry, equal => equal hash (hash of a symbolic attribute is a token chosen by entailment, array bytes included), equal => equal attributes, transitivity on triples. Families of ~30 spaces and ~20 sets are enumerated concretely for reflexivity / symmetry / hash consistency / transitivity / membership-iff-own-space-equal. element(): x itself iff it belongs, converted values otherwise (symbolic entries), documented exceptions for incompatible shapes / part counts; element indexing (ints, slices, tuples, lists, masks) commutes with asarray for all contents; astype / real_space / complex_space / byaxis / byaxis_in / product-space indexing carry the selected shape, dtype, field and weighting (concrete facts).',
        note='Trusted: symnp engine (hash tokens by entailment), z3. Array weightings compare by identity of the array (documented). One known finding (ProductSpace.__getitem__ drops the weighting).',
        ref='DESIGN.md section 4 C20'),
})
CHECKS.update({
    'C15': dict(
        text='space.element(callable) is executed (sampling_function, _make_dual_use_func, point_collocation, the vectorize decorator over a re-stated numpy.vectorize) with an uninterpreted function h in every calling convention (natively vectorised, decorator with/without otypes, one coordinate only, in-place, dual-use, constant, complex, evaluated before sampling); every entry must be h(grid point) -- decided by congruence for every h. nearest/linear/per-axis interpolators run on symbolic node values and symbolic evaluation points (1-3d, non-uniform concrete coordinate vectors; the cell search forks): equal to closest node (right on ties) / multilinear blend on every cell, node reproduction, exactness on affine data, documented extension outside the hull, single point = point array = mesh = out=; narrower value dtypes with concrete float64 points at and next to ties (points must not be rounded); Resampling (1-3d, per-axis mixes) and linear_deform / LinDeformFixedDisp against the same reference.',
        note='Trusted: symnp engine, z3, the re-statement of numpy.vectorize (element-wise application by numpy.frompyfunc, output type from otypes or the first output, C truncation as an axiomatised integer application). Coordinates of the grids are concrete; float rounding of the arithmetic is outside (reals).',
        ref='DESIGN.md section 4 C15'),
})
CHECKS.update({
    'C19': dict(
        text='Every geometry class (Parallel2d, Parallel3dAxis, Parallel3dEuler with 2 and 3 angles, FanBeam, ConeBeam incl. helical pitch, cylindrical / spherical / circular detectors, source and detector shift functions, frommatrix) is built with a generic concrete initial configuration and symbolic radii / pitch / offset / translation / shifts and evaluated at symbolic angles and detector parameters (cos, sin uninterpreted with c^2+s^2=1): rotation matrix = reference (2d, Rodrigues, ZXZ), R^T R = I, det R = 1, det_point_position = refpoint + R surface, reference formulas for det_refpoint / src_position, det_to_src consistent with the source and of unit length, parallel rays independent of the detector point, orthogonal to the detector axes and equal to R normal; stacked, paired and outer-broadcast calls equal to single calls entry by entry with the documented shapes; geom[indices] gives the same vectors at the angles of the slice and leaves the original unchanged; detectors: surface(0)=0, surface_deriv = derivative of surface (forward-mode AD of the real code), unit normal orthogonal to the tangents, right-handedness, surface_measure, points at distance radius from the centre of curvature; parallel_beam_geometry / cone_beam_geometry / helical_geometry: for every angle the ray through every corner of the volume (a weaker inner point set for the cone factories, see the known finding) hits the detector inside its range.',
        note='Trusted: symnp engine (branch sampler, polynomial normal form modulo the sqrt/sin/cos axioms, folding of constant applications with constants re-read as simple fractions within 1e-13), z3. Initial axes / init matrices are concrete generic instances. Two defects repaired (slicing), one known finding (cone factories).',
        ref='DESIGN.md section 4 C19'),
})
CHECKS.update({
    'C18': dict(
        text='Fourier clauses: DiscreteFourierTransform(+Inverse) and FourierTransform(+Inverse) are executed on arrays of solver variables for shapes (2),(3),(4),(5),(6),(3,4),(4,3),(2,3,2), all axes subsets, halfcomplex, both signs, all per-axis shift combinations, real and complex dtypes, both back-ends: the DFT equals the discrete Fourier sum over the chosen axes (exact arithmetic for lengths 2,3,4,6), inverse(dft(x)) = x out-of-place, with out= and when applied twice (argument not destroyed), each back-end inverts the other, results do not depend on previous contents of outputs, temporaries and FFTW plan arrays (taint), plan and temporary re-use; the continuous transform equals s*phi_hat(xi_bar)*sum_j f(x_j)exp(-+i x_j xi_k) on the operator\'s own grids and its inverse recovers every input (affine in the input with float phase factors: exact bound over the box [-8,8]^n below 1e-9). The FFT libraries are replaced by their documented input/output relation (symnp.fftmodel) incl. FFTW\'s destruction of plan arrays and multi-dimensional c2r inputs; every path is compared with the real numpy.fft / FFTW at a sample point. Wavelet clauses for the Haar wavelet on even lengths (1-3d, axes subsets, 1-3 levels, every extension mode; PyWavelets replaced by the pairwise Haar relation, symnp.pywtmodel): inverse(W(x)) = x, W(inverse(c)) = c, adjoint identity for both returned adjoints in the weighted inner products, energy identity. Other wavelets and the Gaussian convergence clause are not decided (see level_note).',
        note='NOT decided by this check: (i) wavelets other than Haar, odd lengths (cropping branch of the inverse), biorthogonal wavelets -- decomposition and reconstruction happen inside PyWavelets (compiled); re-stating general filter banks and boundary modes would verify the re-statement, so only the Haar/even case, where the relation is two lines and independent of the extension mode, is modelled; (ii) convergence to the analytic Gaussian transform under refinement (asymptotic float statement; the exact quadrature formula is decided instead); (iii) equality of numpy.fft and FFTW themselves (both are replaced by the same documented relation; the comparison with the real libraries is one sample per path). Trusted: symnp engine, fftmodel, z3. Five defects repaired, two known findings.',
        ref='DESIGN.md section 4 C18'),
})
NOT_YET = {}


# what later rounds added to each claim (appended to the level text)
ADDENDA = {
    'C01': ' Round 3: the kernel _lincomb_impl additionally runs on 1-d data whose NUMBER OF ENTRIES is a solver integer '
           '(symnp/larr.py), so its whole size dispatch incl. the > int32 guard is decided for every size and position '
           '(anysize/*); ndarray operands, x/x on IEEE special values (concrete facts), a BLAS-regime shape whose first '
           'axis alone reaches the threshold; the BLAS stubs honour the length argument.',
    'C03': ' Round 3: every functional recipe goes through the same protocol (f, f.gradient, f.proximal), LpNorm with '
           'p = 3, 4, 6, slice-indexed component projections; the finite-difference operators (not encodable) get a '
           'concrete protocol check with bitwise comparison of x (concrete facts, counted separately).',
    'C04': ' Round 3: A**n for n up to 11 (thorough 16); a family with an in-place leaf that is deliberately not alias-safe.',
    'C06': ' Round 3: affine variants of every difference operator for every method; single-component vector fields.',
    'C08': ' Round 3: separable sums of same-class summands, nested argument/value scalings.',
    'C09': ' Round 3: value/* decides that every derived functional takes its documented value (independent oracle from '
           'the space\'s inner product); nested scalings, Rosenbrock on rn(3)/rn(4), separable sums with a finite constant '
           'first, vector-scaled quadratic forms.',
    'C12': ' Round 3: relaxation lam != 1, a line search object reused across runs, CG in 1-d (symbolic, np.isclose forks) '
           'and at extreme scales (concrete facts).',
    'C13': ' Round 3: 1-d finite_diff additionally runs on an array of symbolic LENGTH (anylen/*): the entry at a symbolic '
           'position equals the ghost-cell stencil / the column of minus the transposed forward matrix for every length.',
    'C14': ' Round 3: strict definedness (a division by the 0.0 cell size of a length-1 axis is a violation, not an excuse); '
           'negative slice bounds and insertion indices, single-node axes, dictionary limits with symbolic values.',
    'C16': ' Round 3: 1-d resize_array additionally runs with symbolic lengths, offset and position (anylen/*): forward in '
           'all five modes, adjoint in constant/periodic/symmetric, illegal padding lengths must raise, for EVERY length.',
    'C17': ' Round 3: the whole legacy interface (every name of odl.util.ufuncs.UFUNCS) against NumPy on NaN/inf/signed zeros '
           '(concrete facts); outer with out=.',
    'C20': ' Round 3: mixed-dtype product spaces under astype; the dtype-conversion matrix of element creation.',
    'C05': ' Round 4: stale-adjoint sequences (adjoint identity, in-place update of the data the leaves refer to, identity '
           'again through the same expression object); ndarray/list multiplicands.',
    'C07': ' Round 4: functionals on spaces with two axes (rn((2,2)), 2-d uniform_discr).',
    'C10': ' Round 4: MultiplyOperator with ndarray and list multiplicands.',
    'C15': ' Round 4: dense non-tensor-product mesh input, same-shape resampling between different node placements, '
           'grid aliasing on spaces with a single non-degenerate axis (concrete facts).',
    'C18': ' Round 4: pre-planned FFTW transforms (init_fftw_plan before the first call), equal-length axes with '
           'different per-axis shift flags.',
    'C19': ' Round 4: entry-by-entry comparison of vectorised evaluation with single evaluation for strided / reversed / '
           'unsorted / length-1 angle arrays incl. flying-focal-spot shifts, documented output shapes, skew initial '
           'detector axes (concrete facts).',
}
ADDENDA['C13'] += ' Round 4: PartialDerivative / Gradient on nodes_on_bdry grids; paddings the Laplacian refuses.'
ADDENDA['C16'] += ' Round 4: domain with a user-defined constant weighting; mode names in capitals.'


def main():
    props = [json.loads(l) for l in open(os.path.join(HERE, 'properties.jsonl'))]
    checks = []
    na = []
    for p in props:
        pid = p['id']
        if pid in CHECKS:
            c = CHECKS[pid]
            checks.append({
                'property_id': pid,
                'quick_cmd': './check %s --tier quick' % pid,
                'thorough_cmd': './check %s --tier thorough' % pid,
                'evidence_file': '/verif/evidence/%s.json' % pid,
                'replay_cmd_template': './check %s --replay {path}' % pid,
                'engine': 'symnp',
                'level_claimed': {'category': 'other', 'text': c['text'] + ADDENDA.get(pid, ''), 'design_ref': c['ref']},
                'level_note': c['note'],
                'technique': c.get('technique', TECH),
            })
        else:
            na.append({'property_id': pid, 'reason': NOT_YET.get(
                pid, 'check not landed yet in this build round (solver-based harness planned in DESIGN.md section 4); not claimed until it runs clean')})
    man = {
        'version': 1,
        'setup_cmd': './setup.sh',
        'hooks': {
            'guard': 'ODL_VERIF',
            'enable': 'not used: the checks rebind module globals (np, float, complex, BLAS getter) of the imported odl modules at run time inside the check process; no source hooks exist in /repo',
            'baseline_off_cmd': BASE_CMD,
            'source_commits': [],
            'add_only': True,
        },
        'engines': [{'name': 'symnp', 'path': 'symnp/', 'serves_properties': sorted(CHECKS),
                     'kind_free_text': 'path-forking symbolic execution of the real Python/NumPy code on arrays of solver variables; z3 5.1 decides each obligation and every branch infeasibility (feasible branch sides may be witnessed by a pool of concrete points); library leaves (BLAS, numpy.fft, FFTW, PyWavelets/Haar, numpy.vectorize) replaced by their documented relations and compared with the real libraries on every path; concrete replay on unpatched code; cvc5 second opinion in the thorough tier'}],
        'checks': checks,
        'not_applicable': na,
        'notes': 'Exit codes: 0 held on everything explored (KNOWN-FINDING / INCONCLUSIVE lines possible), 1 replay-confirmed unlisted violation, 2 machinery fault. known_findings.json lists recorded and fixed defects.',
    }
    with open(os.path.join(HERE, 'MANIFEST.json'), 'w') as f:
        json.dump(man, f, indent=1)
    try:
        import jsonschema
        jsonschema.validate(man, json.load(open('/root/.vp/MANIFEST.schema.json')))
        print('MANIFEST.json valid; claimed:', sorted(CHECKS))
    except ImportError:
        print('written (jsonschema not available)')


if __name__ == '__main__':
    main()
