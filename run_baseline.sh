#!/bin/bash
# Runs the repository's pinned test suite (guard off; there are no hooks) and prints the summary line.
cd /repo && /venv/bin/python -m pytest -ra -q -p no:cacheprovider --timeout=900 --continue-on-collection-errors -W ignore 2>&1 | grep -E "^[0-9]+ passed|failed|error" | tail -5
