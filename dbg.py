"""Debug helper: run one config of a harness serially with tracebacks.  usage: dbg.py C03 'op/Matrix/cn2->cn2'"""
import sys, traceback, importlib, os
sys.path.insert(0, '/verif'); sys.path.insert(0, os.environ.get('VERIF_REPO', '/repo'))
import warnings; warnings.simplefilter('ignore')
import odl
from symnp import proxy, terms as T
from symnp.scalars import ENG, EngineGap, Infeasible, PathBudget
from symnp.ctx import Ctx, Settings
prop, cfg = sys.argv[1], sys.argv[2]
mod = importlib.import_module('harness.' + prop.lower())
params = dict(list(mod.configs('thorough', 0)) + list(mod.canaries('quick', 0)))[cfg]
S = Settings()
for k, v in getattr(mod, 'SETTINGS', {}).items(): setattr(S, k, v)
for k, v in params.get('_settings', {}).items(): setattr(S, k, v)
proxy.STATE.int_mode = getattr(S, 'int_mode', False)
ENG.hash_tokens = getattr(S, 'hash_tokens', False)
ENG.merge_abs = getattr(S, 'merge_abs', False)
T.SNAP = getattr(S, 'snap_consts', 0)
T.FOLD = getattr(S, 'fold_ground_apps', False)
ENG.skip_undefined = getattr(S, 'skip_undefined', False)
proxy.install(extra=getattr(mod, 'PROXY_EXTRA', ()))
cp = {k: v for k, v in params.items() if not k.startswith('_')}
def body():
    ctx = Ctx('sym', settings=S, canary=cfg.startswith('canary')); proxy.STATE.armed = True
    try: mod.case(ctx, **cp)
    except (Infeasible, PathBudget): raise
    except Exception: traceback.print_exc()
    finally: proxy.STATE.armed = False
    return ctx
n = 0
for c in ENG.explore(body):
    n += 1
    if os.environ.get('SHOWPC'): print('PC', [T.to_str(c, 6) for c in ENG.pc][:12], 'notes', ENG.notes[:5])
    print('path', n, {k: v for k, v in c.stats.items() if k != 'nontrivial_keys'}, 'cands', [(x.label, x.detail, x.values) for x in c.candidates][:3], c.inconclusive[:3])
    if n >= int(os.environ.get('MAXP', '5')): break
print('queries', ENG.nqueries, 'sampler hits', ENG.sampler_hits, 'paths', n)
