#!/bin/bash
# Re-runs every stored seeded change against the current checks: apply /verif/seeded/<id>/patch.diff in a scratch
# worktree of /repo (outside /repo and /verif), run the property's quick check against it, expect a VIOLATION.
# usage: seedregress.sh [id ...]
WT=${SEED_WT:-/tmp/seedregress_wt}
git -C /repo worktree remove --force $WT 2>/dev/null
git -C /repo worktree add -q --detach $WT HEAD || exit 2
cd /verif
for d in ${@:-$(ls seeded)}; do
  P=${d%%-*}
  (cd $WT && git checkout -q -- . && git apply /verif/seeded/$d/patch.diff) || { echo "$d APPLY-FAILED"; continue; }
  out=$(VERIF_REPO=$WT ./check $P --tier quick --no-evidence 2>&1)
  n=$(echo "$out" | grep -c "^VIOLATION")
  ex=$(echo "$out" | grep -E "quick:" | sed 's/.*exit=//')
  echo "$d violations=$n exit=$ex"
done
git -C /repo worktree remove --force $WT
