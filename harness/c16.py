"""C16 — resizing and padding follow the named boundary rule; cropping undoes extension.

Real code: odl.util.numerics.resize_array (+ _assign_intersection, _padding_slices_*,
_apply_padding), odl.discr.discr_ops.ResizingOperator (+ adjoint, inverse, _resize_discr).
Symbolic: array contents, pad_const.  Oracle: per-axis index-map matrices of each named rule
(written below, exact), tensor product over axes; the adjoint direction is specified as the
transpose of the forward map in the opposite shape direction."""
import itertools
from fractions import Fraction as Fr

import numpy as np
import odl
from odl.util import numerics

from symnp.ctx import flat
from symnp.larr import LArr, LProxy, both, ite
from symnp.scalars import SB, SV

EXPLANATION = ('C16: resize_array / ResizingOperator are executed on arrays of solver variables; for every '
               '(old shape, new shape, offset, pad mode, direction) in the bounded family each output entry must '
               'equal the index-map reference for all contents and pad constants; forward/adjoint transposition, '
               'crop-after-extend identity and the weighted adjoint identity are decided as identities.  '
               'anylen/*: the same real resize_array runs once on 1-d arrays whose LENGTHS and OFFSET are solver '
               'integers (symnp/larr.py: contents are a function of the index, slices follow slice.indices, '
               'assignments become ite-updates); the entry at a symbolic position must equal the named rule, so '
               'the index arithmetic of _intersection_slice_tuples / _padding_slices_inner / _padding_slices_outer / '
               '_apply_padding is decided for every length, offset and position (linear integer arithmetic with '
               'uninterpreted content functions), and illegal padding lengths must raise ValueError.')
BOUNDS = {
    'quick': {'anylen': 'lengths n, m >= 0, offset >= 0 and position unbounded integers (1-d)', 'ndim': '1-2', 'old_lengths_1d': '1..5', 'new_lengths_1d': '1..6', 'offsets': 'all legal (and the '
              'illegal ones must raise ValueError)', 'modes': 5, 'directions': 2, 'shapes_2d': '6 shape pairs'},
    'thorough': {'anylen': 'lengths n, m >= 0, offset >= 0 and position unbounded integers (1-d)', 'ndim': '1-3', 'old_lengths_1d': '1..6', 'new_lengths_1d': '1..8', 'offsets': 'all',
                 'modes': 5, 'directions': 2, 'shapes_2d': 'all pairs with lengths 1..4 (seeded subset of offsets)'},
}
OUTSIDE = ['floating-point rounding (order1 slopes are exact in the reals)',
           'lengths above the bound for ndim >= 2, for ResizingOperator and for the adjoint direction of order0 / '
           'order1 (reductions over a symbolic length are not encoded); 1-d resize_array forward in all five modes '
           'and adjoint in constant / periodic / symmetric is decided for every length (anylen/*)',
           'integer-dtype truncation of pad_const']
ASSUMPTIONS = []
EXHAUSTIVE = True
MODES = ('constant', 'periodic', 'symmetric', 'order0', 'order1')


# ------------------------------------------------------------------ oracle
def legal(n, m, off, mode):
    """Is extension n -> m (m > n) with left padding ``off`` allowed for the mode?"""
    pl, pr = off, m - n - off
    if mode == 'periodic':
        return pl <= n and pr <= n
    if mode == 'symmetric':
        return pl < n and pr < n
    if mode == 'order0':
        return n >= 1
    if mode == 'order1':
        return n >= 2
    return True


def fwd_matrix(n, m, off, mode):
    """m x n matrix F and constant column k with  out = F arr + pad_const * k  (forward)."""
    F = [[Fr(0)] * n for _ in range(m)]
    k = [Fr(0)] * m
    if m <= n:                       # restriction: out[i] = arr[i + off]
        for i in range(m):
            F[i][i + off] = Fr(1)
        return F, k
    for i in range(m):
        j = i - off
        if 0 <= j < n:
            F[i][j] = Fr(1)
        elif mode == 'constant':
            k[i] = Fr(1)
        elif mode == 'periodic':
            F[i][j % n] = Fr(1)
        elif mode == 'symmetric':
            F[i][-j if j < 0 else 2 * (n - 1) - j] = Fr(1)
        elif mode == 'order0':
            F[i][0 if j < 0 else n - 1] = Fr(1)
        elif mode == 'order1':
            if j < 0:                # f0 + j (f1 - f0)
                F[i][0] += Fr(1 - j)
                F[i][1] += Fr(j)
            else:
                d = j - (n - 1)      # f_{n-1} + d (f_{n-1} - f_{n-2})
                F[i][n - 1] += Fr(1 + d)
                F[i][n - 2] += Fr(-d)
    return F, k


def reference(arr, newshp, offset, mode, c, direction):
    """Reference resize of an ndarray (object or numeric) -> object ndarray of shape newshp."""
    arr = np.asarray(arr)
    old = arr.shape
    mats = []
    for n, m, off in zip(old, newshp, offset):
        if direction == 'forward':
            F, k = fwd_matrix(n, m, off, mode)
        else:
            # transpose of the forward map  m -> n  (same offset, same mode), no constant part
            G, _ = fwd_matrix(m, n, off, mode)
            F = [[G[j][i] for j in range(n)] for i in range(m)]
            k = [Fr(0)] * m
        mats.append((F, k))
    out = np.empty(newshp, dtype=object)
    for idx in np.ndindex(*newshp):
        if mode == 'constant' and direction == 'forward' and any(m[1][i] != 0 for m, i in zip(mats, idx)):
            out[idx] = c
            continue
        s = 0
        for jdx in np.ndindex(*old):
            w = Fr(1)
            for (F, _), i, j in zip(mats, idx, jdx):
                w *= F[i][j]
                if w == 0:
                    break
            if w != 0:
                v = arr[jdx]
                s = s + (float(w) * v if isinstance(v, (float, complex, np.floating, np.complexfloating)) else w * v)
        out[idx] = s
    return out


def offsets(n, m):
    return range(0, abs(m - n) + 1)


# ----------------------------------------------------------------- configs
def configs(tier, seed):
    out = []
    olds = range(1, 6) if tier == 'quick' else range(1, 7)
    news = range(1, 7) if tier == 'quick' else range(1, 9)
    for mode in MODES:
        for direction in ('forward', 'adjoint'):
            for n in olds:
                for m in news:
                    out.append(('ra/%s/%s/%d->%d' % (mode, direction, n, m),
                                dict(kind='ra', mode=mode, direction=direction, old=[n], new=[m])))
            pairs2 = [((2, 3), (4, 2)), ((3, 3), (5, 5)), ((2, 2), (3, 5)), ((3, 2), (2, 4)), ((1, 3), (3, 3)),
                      ((3, 4), (3, 2))]
            if tier == 'thorough':
                import random
                rnd = random.Random(seed)
                allp = [(a, b) for a in itertools.product(range(1, 5), repeat=2)
                        for b in itertools.product(range(1, 5), repeat=2)]
                pairs2 = pairs2 + rnd.sample(allp, 40)
            for p3 in ([((2, 3, 2), (2, 5, 4)), ((3, 2, 2), (2, 4, 3))] if tier == 'quick' else
                       [((2, 3, 2), (2, 5, 4)), ((3, 2, 2), (2, 4, 3)), ((2, 2, 2), (3, 1, 4)), ((2, 3, 2), (4, 4, 3)),
                        ((2, 3, 4), (2, 5, 6))]):
                if True:
                    out.append(('ra/%s/%s/%s->%s' % (mode, direction, 'x'.join(map(str, p3[0])),
                                                     'x'.join(map(str, p3[1]))),
                                dict(kind='ra', mode=mode, direction=direction, old=list(p3[0]), new=list(p3[1]),
                                     max_offsets=4)))
            for a, b in pairs2:
                out.append(('ra/%s/%s/%s->%s' % (mode, direction, 'x'.join(map(str, a)), 'x'.join(map(str, b))),
                            dict(kind='ra', mode=mode, direction=direction, old=list(a), new=list(b),
                                 max_offsets=6)))
        out.append(('ra/%s/complex' % mode, dict(kind='ra', mode=mode, direction='forward', old=[3], new=[5],
                                                   dtype='complex128')))
        for direction, o_, n_ in (('forward', [3], [6]), ('adjoint', [6], [3])):
            out.append(('ra/%s/%s/mode-name-capitalised' % (mode, direction),
                        dict(kind='ra', mode=mode, direction=direction, old=o_, new=n_, spell='upper')))
        out.append(('op/%s/custom-constant-weighting' % mode, dict(kind='op', mode=mode, direction='forward', old=[3],
                                                                   new=[5], weighting=3.0)))
        out.append(('ra/%s/complex-adj' % mode, dict(kind='ra', mode=mode, direction='adjoint', old=[5], new=[3],
                                                       dtype='complex128')))
        out.append(('ra/%s/axes+out' % mode, dict(kind='ra-out', mode=mode, direction='forward', old=[3, 2],
                                                    new=[5, 3])))
        out.append(('ra/%s/adjoint+out' % mode, dict(kind='ra-out', mode=mode, direction='adjoint', old=[5, 3],
                                                       new=[3, 2])))
        out.append(('ra/%s/adjoint+out/1d' % mode, dict(kind='ra-out', mode=mode, direction='adjoint', old=[5],
                                                          new=[3])))
        for shp, newshp in ([((3,), (5,)), ((4,), (2,)), ((2, 3), (4, 4)), ((3,), (6,)), ((4,), (7,)), ((2, 3), (2, 5))]
                            if tier == 'quick' else
                            [((3,), (5,)), ((4,), (2,)), ((2, 3), (4, 4)), ((3, 3), (2, 5)), ((2,), (6,)), ((4,), (7,)),
                             ((2, 3), (2, 5)), ((3, 2), (3, 5))]):
            out.append(('op/%s/%s->%s' % (mode, 'x'.join(map(str, shp)), 'x'.join(map(str, newshp))),
                        dict(kind='op', mode=mode, direction='forward', old=list(shp), new=list(newshp))))
    # ---- every length at once: symbolic lengths n, m and offset (symnp/larr.py), 1-d
    for mode in MODES:
        for regime in ('extend', 'restrict', 'same'):
            out.append(('anylen/%s/forward/%s' % (mode, regime),
                        dict(kind='anylen', mode=mode, direction='forward', regime=regime)))
        out.append(('anylen/%s/adjoint/of-restriction' % mode,
                    dict(kind='anylen', mode=mode, direction='adjoint', regime='of-restriction')))
        if mode in ('constant', 'periodic', 'symmetric'):
            out.append(('anylen/%s/adjoint/of-extension' % mode,
                        dict(kind='anylen', mode=mode, direction='adjoint', regime='of-extension')))
        if mode != 'constant':
            out.append(('anylen/%s/forward/illegal-raises' % mode,
                        dict(kind='anylen', mode=mode, direction='forward', regime='illegal')))
    return out


def canaries(tier, seed):
    return [('canary/ra/order1/forward', dict(kind='ra', mode='order1', direction='forward', old=[3], new=[5])),
            ('canary/op/symmetric', dict(kind='op', mode='symmetric', direction='forward', old=[3], new=[5])),
            ('canary/anylen/symmetric', dict(kind='anylen', mode='symmetric', direction='forward', regime='extend'))]


# -------------------------------------------------------------------- case
def _np_pad_crosscheck(ctx, n, m, off, mode):
    """The harness' reference itself against numpy.pad where an equivalent mode exists (concrete)."""
    npmode = {'constant': 'constant', 'periodic': 'wrap', 'symmetric': 'reflect', 'order0': 'edge'}.get(mode)
    if npmode is None or m <= n or n == 0:
        return
    ramp = np.arange(1, n + 1, dtype=float) ** 2
    ref = reference(ramp, (m,), (off,), mode, 7.0, 'forward').astype(float)
    kw = {'constant_values': 7.0} if npmode == 'constant' else {}
    exp = np.pad(ramp, (off, m - n - off), mode=npmode, **kw)
    ctx.fact('oracle=np.pad', np.allclose(ref, exp), 'reference disagrees with numpy.pad(%s)' % npmode)


def _any_reference(mode, n, m, off, d, f, c):
    """Forward extension rule at position d of the large array, for symbolic or concrete integers
    (legal padding lengths assumed): value of the small array f at the index the rule names."""
    j = d - off
    inside = both(j >= 0, j < n)
    if mode == 'constant':
        left = right = c
    elif mode == 'periodic':
        left, right = f(j + n), f(j - n)
    elif mode == 'symmetric':
        left, right = f(-j), f(2 * (n - 1) - j)
    elif mode == 'order0':
        left, right = f(0), f(n - 1)
    else:
        left = f(0) + j * (f(1) - f(0))
        right = f(n - 1) + (j - (n - 1)) * (f(n - 1) - f(n - 2))
    return ite(inside, f(j), ite(j < 0, left, right))


def _any_adjoint_reference(mode, n, m, off, d, a):
    """Adjoint of the extension n -> m at position d of the SMALL array: sum of the entries a(i) of the
    large array over all i that the forward rule maps to d (transpose of the index map)."""
    val = a(off + d)
    if mode == 'periodic':
        il, ir = off + d - n, off + d + n
        val = val + ite(both(il >= 0, il < off), a(il), 0) + ite(both(ir >= off + n, ir < m), a(ir), 0)
    elif mode == 'symmetric':
        il, ir = off - d, off + 2 * (n - 1) - d
        val = val + ite(both(il >= 0, il < off), a(il), 0) + ite(both(ir >= off + n, ir < m), a(ir), 0)
    return val


def _anylen(ctx, mode, direction, regime):
    """resize_array on 1-d arrays whose lengths and offset are solver integers."""
    bump = 1 if ctx.canary else 0
    n = ctx.integer('n', 0, None, default=3)          # length of the smaller array
    m = ctx.integer('m', 0, None, default=7)          # length of the larger array
    off = ctx.integer('off', 0, None, default=2)
    d = ctx.integer('d', 0, None, default=5)          # the position of the result that is examined
    f = ctx.uf('f', 1)                                # contents of the input array
    g = ctx.uf('g', 1)                                # previous contents of fresh output arrays
    c = ctx.real('c') if (mode == 'constant' and direction == 'forward') else 0
    pl, pr = off, m - n - off
    if regime == 'same':
        ctx.assume(m == n)
    else:
        ctx.assume(n < m)
        ctx.assume(off <= m - n)
    legal_sym = {'constant': True, 'periodic': both(pl <= n, pr <= n), 'symmetric': both(pl < n, pr < n),
                 'order0': n >= 1, 'order1': n >= 2}[mode]
    ext = (direction == 'forward' and regime in ('extend', 'illegal')) or regime == 'of-extension'
    if regime == 'illegal':
        ctx.assume(~legal_sym if isinstance(legal_sym, SB) else (not legal_sym))
    elif ext and legal_sym is not True:
        ctx.assume(legal_sym)
    if regime in ('extend', 'illegal', 'of-restriction', 'same'):
        n_in, n_out = n, m                            # small -> large
    else:
        n_in, n_out = m, n                            # large -> small
    if regime == 'same':
        ctx.assume(off == 0)
    ctx.assume(d < n_out)

    if ctx.sym:
        arr = LArr(n_in, lambda i: f(i))
        real_np, real_conv = numerics.np, numerics.safe_int_conv
        numerics.np = LProxy(real_np, g)
        numerics.safe_int_conv = lambda x: x if isinstance(x, SV) and x.is_integer() else real_conv(x)
        try:
            if regime == 'illegal':
                ctx.expect_raises('illegal-raises', ValueError,
                                  lambda: numerics.resize_array(arr, (n_out,), offset=[off], pad_mode=mode,
                                                                pad_const=c, direction=direction))
                return
            res = numerics.resize_array(arr, (n_out,), offset=[off], pad_mode=mode, pad_const=c, direction=direction)
            got = res.at(d)
            same_len = bool(res.shape[0] == n_out)
            untouched = arr.at(d) if regime in ('of-extension',) else None
        finally:
            numerics.np, numerics.safe_int_conv = real_np, real_conv
    else:
        arr = np.array([f(i) for i in range(n_in)], dtype=float)
        keep = arr.copy()
        if regime == 'illegal':
            ctx.expect_raises('illegal-raises', ValueError,
                              lambda: numerics.resize_array(arr, (n_out,), offset=[off], pad_mode=mode,
                                                            pad_const=c, direction=direction))
            return
        res = numerics.resize_array(arr, (n_out,), offset=[off], pad_mode=mode, pad_const=c, direction=direction)
        got = res[d]
        same_len = res.shape == (n_out,)
        ctx.fact('input-unchanged', np.array_equal(arr, keep))
    ctx.fact('shape', same_len)
    if direction == 'forward':
        if regime in ('extend',):
            ref = _any_reference(mode, n, m, off, d, f, c)
        elif regime == 'restrict':
            ref = f(d + off)
        else:
            ref = f(d)
    else:
        if regime == 'of-restriction':                # adjoint of a restriction = zero extension
            j = d - off
            ref = ite(both(j >= 0, j < n), f(j), 0)
        else:
            ref = _any_adjoint_reference(mode, n, m, off, d, f)
    ctx.eq('rule-at-any-position', got, ref + bump)


def case(ctx, kind, mode, direction, old=None, new=None, dtype='float64', max_offsets=None, regime=None, spell=None,
         weighting=None):
    if kind == 'anylen':
        return _anylen(ctx, mode, direction, regime)
    old, new = tuple(old), tuple(new)
    nd = len(old)
    offs = list(itertools.product(*[offsets(n, m) for n, m in zip(old, new)]))
    if max_offsets is not None and len(offs) > max_offsets:
        step = len(offs) / float(max_offsets)
        offs = [offs[int(i * step)] for i in range(max_offsets)]
    bump = 1 if ctx.canary else 0
    given_mode = mode
    if spell == 'upper':
        # the mode name is accepted case-insensitively (it is lower-cased on entry)
        given_mode = {'constant': 'Constant', 'periodic': 'PERIODIC', 'symmetric': 'Symmetric', 'order0': 'Order0',
                      'order1': 'ORDER1'}[mode]
    if kind in ('ra', 'ra-out'):
        for oi, off in enumerate(offs):
            tag = 'off=%s' % ','.join(map(str, off))
            a = ctx.array('a%d' % oi, old, dtype)
            c = ctx.real('c%d' % oi) if (mode == 'constant' and direction == 'forward') else 0
            pre = ctx.snapshot(a).reshape(old)
            # which axes are extensions (in the direction in which padding is defined)?
            ok = True
            for n, m, o in zip(old, new, off):
                big, small = (m, n) if direction == 'forward' else (n, m)
                if big > small and not legal(small, big, o, mode):
                    ok = False
            if not ok:
                ctx.expect_raises('illegal-raises/' + tag, ValueError,
                                  lambda: numerics.resize_array(a, new, offset=off, pad_mode=mode, pad_const=c,
                                                                direction=direction))
                continue
            if nd == 1 and direction == 'forward':
                _np_pad_crosscheck(ctx, old[0], new[0], off[0], mode)
            ref = reference(pre, new, off, mode, c, direction)
            if bump:
                ref = ref + 1
            if kind == 'ra':
                res = numerics.resize_array(a, new, offset=off, pad_mode=given_mode, pad_const=c, direction=direction)
                ctx.eq('rule/' + tag, res, ref)
                ctx.eq('input-unchanged/' + tag, a, pre)
                ctx.fact('shape/' + tag, tuple(res.shape) == new)
            else:
                out = ctx.array('o%d' % oi, new, dtype, order='F', garbage=True)
                ret = numerics.resize_array(a, new, offset=off, pad_mode=mode, pad_const=c, direction=direction,
                                            out=out)
                ctx.fact('returns-out/' + tag, ret is out)
                ctx.eq('rule-out/' + tag, out, ref)
                ctx.eq('input-unchanged-out/' + tag, a, pre)
            # crop after extend (same offset) is the identity
            if direction == 'forward' and all(m >= n for n, m in zip(old, new)) and kind == 'ra':
                back = numerics.resize_array(res, old, offset=off)
                ctx.eq('crop-after-extend/' + tag, back, pre)
        return

    # ---- ResizingOperator on a discretized space with cell sides 1/2 (and 1/4)
    sides = [0.5, 0.25][:nd]
    space = odl.uniform_discr([0.0] * nd, [n * s for n, s in zip(old, sides)], old) if weighting is None else \
        odl.uniform_discr([0.0] * nd, [n * s for n, s in zip(old, sides)], old, weighting=weighting)
    # default offset (none given): the operator's own offset must describe where the domain sits in the range
    if all(m >= n for n, m in zip(old, new)):
        opd = odl.ResizingOperator(space, ran_shp=new, pad_mode=mode)
        offd = tuple(int(o) for o in opd.offset)
        okd = all(np.allclose(opd.range.grid.coord_vectors[i][offd[i]:offd[i] + n], space.grid.coord_vectors[i])
                  for i, n in enumerate(old))
        ctx.fact('default-offset/range-grid-contains-domain-grid-at-op.offset', okd,
                 'offset %s, range grid %s, domain grid %s' % (offd, opd.range.grid.coord_vectors,
                                                              space.grid.coord_vectors))
        if all(legal(n, m, o, mode) for n, m, o in zip(old, new, offd)):
            xd = ctx.element(space, 'xd')
            pred = ctx.snapshot(xd).reshape(old)
            ctx.eq('default-offset/op-rule', opd(xd), reference(pred, new, offd, mode, 0, 'forward'))
            ctx.eq('default-offset/inverse-after-extend', opd.inverse(opd(xd)), pred)
    # an axis whose size does not change keeps its geometry whatever offset entry is given for it
    if nd == 2 and old[0] == new[0] and new[1] > old[1]:
        for offv in ((1, 1), 1):
            try:
                opu = odl.ResizingOperator(space, ran_shp=new, offset=offv, pad_mode=mode)
            except ValueError:
                ctx.fact('unchanged-axis/offset=%s/rejected' % (offv,), True)
                continue
            ctx.fact('unchanged-axis/offset=%s/keeps-its-grid' % (offv,),
                     np.allclose(opu.range.grid.coord_vectors[0], space.grid.coord_vectors[0]),
                     'range grid %s vs domain grid %s' % (opu.range.grid.coord_vectors[0], space.grid.coord_vectors[0]))
    for oi, off in enumerate(offs):
        tag = 'off=%s' % ','.join(map(str, off))
        ok = all(not (m > n) or legal(n, m, o, mode) for n, m, o in zip(old, new, off))
        c = ctx.real('c%d' % oi) if mode == 'constant' else 0
        op = odl.ResizingOperator(space, ran_shp=new, offset=off, pad_mode=mode, pad_const=c)
        for nob in (True, (True, False), (False, True)):
            opb = odl.ResizingOperator(space, ran_shp=new, offset=off, pad_mode=mode,
                                       discr_kwargs={'nodes_on_bdry': nob})
            okb = np.allclose(opb.range.cell_sides, space.cell_sides)
            for i, (n, m) in enumerate(zip(old, new)):
                if m >= n:
                    okb = okb and np.allclose(opb.range.grid.coord_vectors[i][off[i]:off[i] + n],
                                              space.grid.coord_vectors[i])
            ctx.fact('range-grid-contains-domain-grid/nodes_on_bdry=%s/%s' % (nob, tag), okb,
                     'range grid %s vs domain grid %s at offset %s' % (opb.range.grid.coord_vectors,
                                                                      space.grid.coord_vectors, off))
        okg = True
        for i, (n, m) in enumerate(zip(old, new)):
            if m >= n:
                okg = okg and np.allclose(op.range.grid.coord_vectors[i][off[i]:off[i] + n],
                                          space.grid.coord_vectors[i])
        ctx.fact('range-grid-contains-domain-grid/' + tag, okg)
        # range geometry (concrete facts): unchanged cell sides, covers the shifted physical domain
        ctx.fact('cell-sides/' + tag, np.allclose(op.range.cell_sides, space.cell_sides))
        # the property speaks of the *enlarged* domain: asserted on axes that grow (or keep their size)
        grow = [i for i, (n, m) in enumerate(zip(old, new)) if m >= n]
        exp_min = [-off[i] * sides[i] for i in grow]
        exp_max = [(new[i] - off[i]) * sides[i] for i in grow]
        ctx.fact('range-covers-enlarged-domain/' + tag,
                 np.allclose([op.range.min_pt[i] for i in grow], exp_min)
                 and np.allclose([op.range.max_pt[i] for i in grow], exp_max),
                 'range [%s, %s] expected [%s, %s] on growing axes' % (op.range.min_pt, op.range.max_pt,
                                                                      exp_min, exp_max))
        ctx.fact('range-shape/' + tag, tuple(op.range.shape) == new)
        # the range inherits the weighting of the domain (same constant), so the adjoint identity holds in the
        # two spaces' own inner products also for a user-defined weighting
        ctx.fact('range-weighting=domain-weighting/' + tag,
                 getattr(op.range.weighting, 'const', None) == getattr(space.weighting, 'const', None),
                 'range %r domain %r' % (op.range.weighting, space.weighting))
        x = ctx.element(space, 'x%d' % oi)
        pre = ctx.snapshot(x).reshape(old)
        if not ok:
            ctx.expect_raises('illegal-raises/' + tag, ValueError, lambda: op(x))
            continue
        ref = reference(pre, new, off, mode, c, 'forward')
        if bump:
            ref = ref + 1
        ctx.eq('op-rule/' + tag, op(x), ref)
        y = ctx.garbage(op.range, 'g%d' % oi)
        ctx.fact('returns-out/' + tag, op(x, out=y) is y)
        ctx.eq('op-rule-inplace/' + tag, y, ref)
        lin = odl.ResizingOperator(space, ran_shp=new, offset=off, pad_mode=mode)
        yy = ctx.element(lin.range, 'y%d' % oi)
        py = ctx.snapshot(yy)
        ctx.eq('adjoint-identity/' + tag, lin(x).inner(yy), x.inner(lin.adjoint(yy)))
        ctx.eq('adjoint-input-unchanged/' + tag, yy, py)
        ctx.eq('input-unchanged/' + tag, x, pre)
        # adjoint = transpose of the forward rule, scaled by the weighting ratio (cell volumes are equal here)
        ctx.eq('adjoint-rule/' + tag, lin.adjoint(yy), reference(py.reshape(new), old, off, mode, 0, 'adjoint'))
        ctx.eq('adjoint-input-unchanged-2/' + tag, yy, py)
        ctx.fact('adjoint-spaces/' + tag, lin.adjoint.domain == lin.range and lin.adjoint.range == lin.domain)
        if all(m >= n for n, m in zip(old, new)):
            ctx.eq('inverse-after-extend/' + tag, lin.inverse(lin(x)), pre)
