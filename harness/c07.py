"""C07 — a proximal operator returns the minimiser of f(z) + ||z-x||^2 / (2 sigma).

Real code: every functional recipe of harness/funcs.py that offers a proximal (built-ins through the factories
of proximal_operators.py, derived ones through the calculus rules), the functional's own _call for f(.), and the
space's own (weighted) inner product for the quadratic term.  Symbolic: x, the competitor z, sigma where the
arithmetic stays exact.  Oracle 1 (values): on every pair of paths F(z) >= F(p) with
F(v) = 2 sigma f(v) + <v-x, v-x>.  Oracle 2 (first order, transcendental values): (x - p)/sigma = grad f(p)."""
import numpy as np
import odl
from odl.set.sets import Field

from harness import funcs
from symnp.ctx import flat
from symnp.scalars import EngineGap

EXPLANATION = ('C07: p = f.proximal(sigma)(x) is computed by the real proximal code on symbolic x; f(p) must be finite '
               'and for a symbolic competitor z the solver must refute 2 sigma f(z) + |z-x|^2 < 2 sigma f(p) + |p-x|^2 '
               'on every pair of paths (values taken from the real functional code, norm from the space\'s own weighted '
               'inner product); indicator proximals are idempotent; piecewise-linear ones firmly non-expansive; '
               'transcendental functionals (KL) by the first-order condition with the library\'s own gradient.')
BOUNDS = {'quick': {'dimension': 'n = 2 (product spaces 2x2; 1 for sqrt-based functionals on product spaces)',
                    'sigma': 'symbolic > 0 for piecewise linear/quadratic functionals on rn, dyadic constants otherwise',
                    'spaces': 'rn, array-weighted rn, uniform_discr (cell volume 1/4), product spaces'}}
OUTSIDE = ['nuclear norm and its indicator (SVD in LAPACK)', 'KullbackLeiblerCrossEntropy and its conjugate (Lambert W: the first-order identity needs log(W(z)) = log z - W(z), outside the axioms of the uninterpreted W)', 'optimality by values of the projections onto L2-type balls in the quick tier (thorough only)', 'paths on which a norm-like functional is evaluated at a point with vanishing (pointwise) norm in the first-order oracle', 'optimality of KL-type functionals by values (first-order '
           'condition used instead; convexity is a mathematical assumption)', 'dimension above the stated one']
ASSUMPTIONS = ['convexity of the functionals (first-order oracle only)', 'np.finfo(...).eps / .resolution are served as 0 (the 1e-15 safety factors of proximal_l2 & co. are rounding devices; exact real arithmetic is claimed)']
SETTINGS = {'strict_definedness': False, 'max_paths': 1500, 'tol': (1e-9, 4), 'obligation_timeout_ms': 20000, 'eps_zero': True}
CFG_TIMEOUT = {'quick': 300, 'thorough': 1200}


def configs(tier, seed):
    out = []
    for cid, rn, sk in funcs.instances(tier, harness='C07'):
        r = funcs.fby_name(rn)
        if sk == 'field':
            continue
        if rn in NOT_DECIDED or (rn in THOROUGH_ONLY and tier == 'quick'):
            continue
        out.append(('prox/' + cid, dict(kind='prox', recipe=rn, sk=sk)))
        if rn in FIRM and sk == 'rn':
            out.append(('firm/' + cid, dict(kind='firm', recipe=rn, sk=sk)))
    for name in sorted(EXTRA):
        out.append(('extra/' + name, dict(kind='extra', recipe=name)))
    return out


FIRM = ('L1Norm', 'L2NormSquared', 'IndicatorBox', 'IndicatorNonnegativity', 'Huber', 'LinfNorm',
        'IndicatorLpUnitBall/inf', 'derived/L1.translated', 'derived/quadpert(L1)', 'derived/2*L1')
SYMBOLIC_SIGMA = ('L2NormSquared', 'IndicatorBox', 'derived/2*L1', 'derived/L1.translated',
                  'Constant', 'IndicatorZero')
THOROUGH_ONLY = ('IndicatorGroupL1UnitBall', 'IndicatorLpUnitBall/2')     # values oracle with sqrt: minutes
LOOSE_SLACK = {'IndicatorSimplex': 1e-3, 'IndicatorSimplex/diam2': 1e-3, 'IndicatorSumConstraint': 1e-3,
               'IndicatorSumConstraint/value=3': 1e-3}
NOT_DECIDED = {'KullbackLeiblerCrossEntropy': 'proximal uses the Lambert W function; the first-order identity needs '
               'log(W(z)) = log z - W(z), which is outside the axioms served for the uninterpreted W',
               'KullbackLeiblerCrossEntropyConvexConj': 'same (Lambert W)'}


def canaries(tier, seed):
    return [('canary/prox/L1Norm', dict(kind='prox', recipe='L1Norm', sk='rn')),
            ('canary/prox/L2NormSquared', dict(kind='prox', recipe='L2NormSquared', sk='arn'))]


def sep_sum_steps(ctx):
    sp = odl.rn(1)
    f = odl.solvers.SeparableSum(odl.solvers.L1Norm(sp), 2)
    return f, [0.5, 2.0]


def sep_sum_steps_mixed(ctx):
    sp = odl.rn(1)
    g = odl.solvers.L1Norm(sp)
    f = odl.solvers.SeparableSum(g, g, odl.solvers.L2NormSquared(sp))
    return f, [0.5, 2.0, 1.0]


EXTRA = {'SeparableSum(L1,2)/per-component-sigma': sep_sum_steps,
         'SeparableSum(g,g,h)/per-component-sigma': sep_sum_steps_mixed}


def objective(ctx, f, v, x, sigma):
    """2 sigma f(v) + <v - x, v - x>   (None if f(v) = +inf)."""
    fv = f(v)
    if isinstance(fv, (float, np.floating)) and not np.isfinite(fv):
        return None
    diff = v - x
    if isinstance(sigma, (list, tuple)):
        # per-component steps: sum_i ( 2 sigma_i f_i(v_i) ) is not available from f alone; callers pass scalars
        raise EngineGap('objective with per-component steps')
    return 2 * sigma * fv + diff.inner(diff)


def case(ctx, kind, recipe=None, sk=None):
    if kind == 'extra':
        f, steps = EXTRA[recipe](ctx)
        prox = f.proximal(steps)
        x = ctx.element(f.domain, 'x')
        z = ctx.element(f.domain, 'z')
        p = prox(x)
        # separable: sum_i [ 2 sigma_i f_i(v_i) + |v_i - x_i|^2 ] / ... -> component-wise optimality
        for i, (fi, si) in enumerate(zip(f.functionals, steps)):
            Fp = objective(ctx, fi, p[i], x[i], si)
            Fz = objective(ctx, fi, z[i], x[i], si)
            ctx.fact('f(p)-finite/%d' % i, Fp is not None)
            if Fp is not None and Fz is not None:
                ctx.le('optimal/%d' % i, Fp, Fz + (0 if not ctx.canary else -1), slack=1e-9)
        return
    r, f = funcs.build(ctx, recipe, sk, n=1 if 'pspace' in (sk or '') else None)
    sigma = ctx.real('sigma', pos=True) if (recipe in SYMBOLIC_SIGMA and sk == 'rn' and kind == 'prox') else 0.5
    try:
        prox = f.proximal(sigma)
    except (NotImplementedError, ValueError):
        ctx.fact('no-proximal-offered', True)
        return
    if isinstance(prox.domain, Field):
        ctx.fact('field-domain', True)
        return
    x = ctx.element(f.domain, 'x')
    if r.pre is not None and r.kind == 'trans' and 'ConvexConj' in r.name:
        pass
    px = ctx.snapshot(x)
    p = prox(x)
    ctx.fact('prox-in-domain', p in f.domain)
    ctx.eq('x-unchanged', x, px)
    if kind == 'firm':
        x2 = ctx.element(f.domain, 'w')
        p2 = prox(x2)
        dp, dx = p - p2, x - x2
        ctx.le('firmly-nonexpansive', dp.inner(dp), dp.inner(dx) + (0 if not ctx.canary else -1), slack=1e-9)
        return
    if r.kind in ('trans', 'sqrt'):
        # first-order condition with the library's own gradient: (x - p) / sigma = grad f(p)
        # (for norm-like functionals the paths with p = 0, where the gradient is undefined, are excluded)
        if r.kind == 'sqrt':
            # the norm-like functionals are not differentiable where a (pointwise) norm of p vanishes
            parts = p.parts if hasattr(p, 'parts') else [p]
            cols = list(zip(*[list(flat(q)) for q in parts])) if 'Group' in r.name or 'Huber' in r.name else \
                [list(flat(p))]
            for col in cols:
                ctx.assume(sum((v * v for v in col), 0) != 0)
        try:
            g = f.gradient(p)
        except NotImplementedError:
            ctx.fact('no-gradient-for-first-order-oracle', True)
            return
        ctx.eq('first-order:(x-p)/sigma=grad f(p)', (x - p) / sigma, g if not ctx.canary else g + 1)
        return
    Fp = objective(ctx, f, p, x, sigma)
    ctx.fact('f(p)-finite', Fp is not None, 'f(prox(x)) = +inf')
    if Fp is None:
        return
    z = ctx.element(f.domain, 'z')
    Fz = objective(ctx, f, z, x, sigma)
    if Fz is None:
        return                      # competitor outside the effective domain: trivially dominated
    ctx.le('optimal', Fp, Fz + (0 if not ctx.canary else -1), slack=LOOSE_SLACK.get(recipe, 1e-9))
    if r.kind == 'ind':
        ctx.eq('idempotent', prox(p), p)
