"""Introspective operator registry shared by C03, C05, C06, C10.

Every concrete ``Operator`` subclass reachable from the odl namespace must have
either at least one construction recipe below or an entry in NOT_ENCODABLE
(with the reason).  ``unregistered()`` reports classes with neither, so the
enumeration cannot rot silently."""
import importlib
import inspect
import pkgutil

import numpy as np
import odl
from odl.operator import Operator

from symnp.ctx import flat

NOT_ENCODABLE = {
    'odl.operator.operator.Operator': 'abstract base class',
    'odl.operator.tensor_ops.PointwiseTensorFieldOperator': 'abstract base class',
    'odl.operator.tensor_ops.PointwiseInnerBase': 'abstract base class',
    'odl.trafos.fourier.DiscreteFourierTransformBase': 'abstract base class',
    'odl.trafos.fourier.FourierTransformBase': 'abstract base class',
    'odl.trafos.wavelet.WaveletTransformBase': 'abstract base class',
    'odl.trafos.fourier.DiscreteFourierTransform': 'arithmetic in compiled FFT (numpy.fft / FFTW); glue covered by C18',
    'odl.trafos.fourier.DiscreteFourierTransformInverse': 'compiled FFT; glue covered by C18',
    'odl.trafos.fourier.FourierTransform': 'compiled FFT; glue covered by C18',
    'odl.trafos.fourier.FourierTransformInverse': 'compiled FFT; glue covered by C18',
    'odl.trafos.wavelet.WaveletTransform': 'arithmetic in PyWavelets (C)',
    'odl.trafos.wavelet.WaveletTransformInverse': 'arithmetic in PyWavelets (C)',
    'odl.tomo.operators.ray_trafo.RayTransform': 'ASTRA / scikit-image back-ends (compiled, absent)',
    'odl.deform.linearized.LinDeformFixedTempl': 'interpolation of displaced points (floor/searchsorted over symbolic '
                                                 'displacements explodes); adjoint/derivative exempt by the property',
    'odl.deform.linearized.LinDeformFixedDisp': 'same as LinDeformFixedTempl',
    'odl.solvers.functional.derivatives.NumericalDerivative': 'finite-difference approximation by design (no exact claim)',
    'odl.solvers.functional.derivatives.NumericalGradient': 'finite-difference approximation by design (no exact claim)',
    'odl.solvers.functional.functional.Functional': 'abstract base class',
    'odl.solvers.functional.example_funcs.RosenbrockFunctional': 'example functional (covered by C09 as a polynomial)',
}

# ufunc operator classes that have a symbolic meaning in the engine
UFUNC_OPS_1 = ('absolute', 'negative', 'square', 'sqrt', 'exp', 'log', 'sin', 'cos', 'reciprocal', 'sign', 'conj',
               'positive')
UFUNC_OPS_2 = ('add', 'subtract', 'multiply', 'divide', 'maximum', 'minimum', 'true_divide')
UFUNC_SKIP_REASON = 'ufunc without a symbolic meaning over the reals in the engine (rounding, bit, hyperbolic/inverse ' \
                    'trigonometric, logical or integer-only ufunc); its plumbing is the shared ufunc_class_factory ' \
                    'code exercised by the registered ufunc operators'


def all_operator_classes():
    seen = {}
    import warnings
    with warnings.catch_warnings():
        warnings.simplefilter('ignore')
        for m in pkgutil.walk_packages(odl.__path__, 'odl.'):
            if '.test' in m.name or 'contrib' in m.name or 'diagnostics' in m.name or 'backends' in m.name:
                continue
            try:
                mod = importlib.import_module(m.name)
            except Exception:
                continue
            for n, c in vars(mod).items():
                if inspect.isclass(c) and issubclass(c, Operator) and c.__module__ == m.name:
                    seen[c.__module__ + '.' + n] = c
    return seen


class Recipe(object):
    def __init__(self, name, build, classes, linear=False, deriv=False, note='', pre=None, cplx=False,
                 exempt_adjoint=False, tol=False, heavy=False):
        self.name, self.build, self.classes = name, build, tuple(classes)
        self.linear, self.deriv, self.note, self.pre = linear, deriv, note, pre
        self.cplx, self.exempt_adjoint, self.tol, self.heavy = cplx, exempt_adjoint, tol, heavy


RECIPES = []


def recipe(name, classes, **kw):
    def deco(f):
        RECIPES.append(Recipe(name, f, classes, **kw))
        return f
    return deco


# ---------------------------------------------------------------- spaces
def R(n=3):
    return odl.rn(n)


def W3():
    return odl.rn(3, weighting=4.0)


def A3():
    return odl.rn(3, weighting=[1.0, 2.0, 4.0])


def C2():
    return odl.cn(2)


def CW2():
    return odl.cn(2, weighting=[1.0, 2.0])


def D3():
    return odl.uniform_discr(0, 0.75, 3)        # cell side 1/4 (sqrt exact)


def D23():
    return odl.uniform_discr([0, 0], [1, 1.5], (2, 3))


def Dnb():
    return odl.uniform_discr(0, 1, 3, nodes_on_bdry=True)


def DC2():
    return odl.uniform_discr(0, 1, 2, dtype='complex128')


DEFAULT = 'odl.operator.default_ops.'
OPER = 'odl.operator.operator.'
TENS = 'odl.operator.tensor_ops.'
PSP = 'odl.operator.pspace_ops.'
DIFF = 'odl.discr.diff_ops.'
DISC = 'odl.discr.discr_ops.'

# ------------------------------------------------------------ default_ops
for _nm, _sp in (('rn', R), ('wrn', W3), ('arn', A3), ('discr', D3), ('cn', C2)):
    recipe('Identity/' + _nm, [DEFAULT + 'IdentityOperator'], linear=True, deriv=True, cplx=_nm == 'cn')(
        lambda ctx, _sp=_sp: odl.IdentityOperator(_sp()))
    recipe('Scaling/' + _nm, [DEFAULT + 'ScalingOperator'], linear=True, deriv=True, cplx=_nm == 'cn')(
        lambda ctx, _sp=_sp, _nm=_nm: odl.ScalingOperator(_sp(), ctx.cplx('s') if _nm == 'cn' else ctx.real('s')))
    recipe('Zero/' + _nm, [DEFAULT + 'ZeroOperator'], linear=True, deriv=True, cplx=_nm == 'cn')(
        lambda ctx, _sp=_sp: odl.ZeroOperator(_sp()))
    recipe('Multiply/' + _nm, [DEFAULT + 'MultiplyOperator'], linear=True, deriv=True, cplx=_nm == 'cn')(
        lambda ctx, _sp=_sp: odl.MultiplyOperator(ctx.element(_sp(), 'm')))
    recipe('InnerProduct/' + _nm, [DEFAULT + 'InnerProductOperator'], linear=True, deriv=True, cplx=_nm == 'cn')(
        lambda ctx, _sp=_sp: odl.InnerProductOperator(ctx.element(_sp(), 'm')))
    recipe('Constant/' + _nm, [DEFAULT + 'ConstantOperator'], deriv=True, cplx=_nm == 'cn')(
        lambda ctx, _sp=_sp: odl.ConstantOperator(ctx.element(_sp(), 'm')))

recipe('Zero/rn3->rn2', [DEFAULT + 'ZeroOperator'], linear=True, deriv=True)(
    lambda ctx: odl.ZeroOperator(R(3), R(2)))
recipe('Multiply/scalar-field', [DEFAULT + 'MultiplyOperator'], linear=True, deriv=True)(
    lambda ctx: odl.MultiplyOperator(ctx.real('m'), domain=R(3), range=R(3)))
# multiplicands that are not space elements: a plain ndarray (symbolic entries) and a list
recipe('Multiply/ndarray-multiplicand', [DEFAULT + 'MultiplyOperator'], linear=True, deriv=True)(
    lambda ctx: odl.MultiplyOperator(ctx.array('m', (3,), 'float64'), domain=R(3), range=R(3)))
recipe('Multiply/ndarray-multiplicand/discr', [DEFAULT + 'MultiplyOperator'], linear=True, deriv=True)(
    lambda ctx: odl.MultiplyOperator(ctx.array('m', (3,), 'float64'), domain=D3(), range=D3()))
recipe('Multiply/list-multiplicand', [DEFAULT + 'MultiplyOperator'], linear=True, deriv=True)(
    lambda ctx: odl.MultiplyOperator([2.0, -0.5, 4.0], domain=R(3), range=R(3)))
recipe('Multiply/field-domain', [DEFAULT + 'MultiplyOperator'], linear=True, deriv=True)(
    lambda ctx: odl.MultiplyOperator(ctx.element(W3(), 'm'), domain=W3().field))
recipe('Multiply/field-domain-cn', [DEFAULT + 'MultiplyOperator'], linear=True, deriv=True, cplx=True)(
    lambda ctx: odl.MultiplyOperator(ctx.element(C2(), 'm'), domain=C2().field))
recipe('Constant/rn3->rn2', [DEFAULT + 'ConstantOperator'], deriv=True)(
    lambda ctx: odl.ConstantOperator(ctx.element(R(2), 'm'), domain=R(3)))
recipe('LinComb/rn', [DEFAULT + 'LinCombOperator'], linear=True, deriv=True)(
    lambda ctx: odl.LinCombOperator(R(3), ctx.real('a'), ctx.real('b')))
recipe('LinComb/discr', [DEFAULT + 'LinCombOperator'], linear=True, deriv=True)(
    lambda ctx: odl.LinCombOperator(D3(), ctx.real('a'), ctx.real('b')))
for _p in (2, 3, -1):
    recipe('Power/rn/p=%d' % _p, [DEFAULT + 'PowerOperator'], deriv=True,
           pre=(lambda ctx, x: [ctx.assume(v != 0) for v in flat(x)]) if _p < 0 else None)(
        lambda ctx, _p=_p: odl.PowerOperator(R(3), _p))
recipe('Power/field', [DEFAULT + 'PowerOperator'], deriv=True)(
    lambda ctx: odl.PowerOperator(odl.RealNumbers(), 3))
recipe('Power/rn/p=1', [DEFAULT + 'PowerOperator'], deriv=True, linear=False)(
    lambda ctx: odl.PowerOperator(R(3), 1))
for _nm, _sp in (('rn', R), ('wrn', W3), ('arn', A3), ('discr', D3)):
    recipe('Norm/' + _nm, [DEFAULT + 'NormOperator'], deriv=True,
           pre=lambda ctx, x: ctx.assume(sum((v * v for v in flat(x)), 0) != 0))(
        lambda ctx, _sp=_sp: odl.NormOperator(_sp()))
    recipe('Dist/' + _nm, [DEFAULT + 'DistOperator'], deriv=True,
           pre=lambda ctx, x: None)(
        lambda ctx, _sp=_sp: odl.DistOperator(ctx.element(_sp(), 'm')))
recipe('RealPart/rn', [DEFAULT + 'RealPart'], linear=True, deriv=True)(lambda ctx: odl.RealPart(R(3)))
recipe('RealPart/cn', [DEFAULT + 'RealPart'], linear=True, deriv=True, cplx=True)(lambda ctx: odl.RealPart(C2()))
recipe('RealPart/cdiscr', [DEFAULT + 'RealPart'], linear=True, deriv=True, cplx=True)(lambda ctx: odl.RealPart(DC2()))
recipe('ImagPart/rn', [DEFAULT + 'ImagPart'], linear=True, deriv=True)(lambda ctx: odl.ImagPart(R(3)))
recipe('ImagPart/cn', [DEFAULT + 'ImagPart'], linear=True, deriv=True, cplx=True)(lambda ctx: odl.ImagPart(C2()))
recipe('ComplexEmbedding/rn', [DEFAULT + 'ComplexEmbedding'], linear=True, deriv=True, cplx=True)(
    lambda ctx: odl.ComplexEmbedding(R(2), scalar=ctx.cplx('s')))
recipe('ComplexEmbedding/rn/1', [DEFAULT + 'ComplexEmbedding'], linear=True, deriv=True, cplx=True)(
    lambda ctx: odl.ComplexEmbedding(R(2)))
recipe('ComplexEmbedding/cn', [DEFAULT + 'ComplexEmbedding'], linear=True, deriv=True, cplx=True)(
    lambda ctx: odl.ComplexEmbedding(C2(), scalar=ctx.cplx('s')))
recipe('ComplexModulus/cn', [DEFAULT + 'ComplexModulus'], deriv=True, cplx=True,
       pre=lambda ctx, x: None)(lambda ctx: odl.ComplexModulus(C2()))
recipe('ComplexModulusSquared/cn', [DEFAULT + 'ComplexModulusSquared'], deriv=True, cplx=True)(
    lambda ctx: odl.ComplexModulusSquared(C2()))
recipe('ComplexModulusSquared/rn', [DEFAULT + 'ComplexModulusSquared'], deriv=True)(
    lambda ctx: odl.ComplexModulusSquared(R(3)))


# ------------------------------------------------------------- tensor_ops
def _vf(sp, n=2):
    return odl.ProductSpace(sp, n)


for _nm, _sp in (('rn', R), ('discr', D3), ('arn', A3)):
    recipe('PointwiseNorm/%s/p=2' % _nm, [TENS + 'PointwiseNorm'], deriv=True,
           pre=lambda ctx, x: None)(lambda ctx, _sp=_sp: odl.PointwiseNorm(_vf(_sp())))
    recipe('PointwiseNorm/%s/p=1' % _nm, [TENS + 'PointwiseNorm'], deriv=True)(
        lambda ctx, _sp=_sp: odl.PointwiseNorm(_vf(_sp()), exponent=1))
    recipe('PointwiseNorm/%s/p=2/weighted' % _nm, [TENS + 'PointwiseNorm'], deriv=True)(
        lambda ctx, _sp=_sp: odl.PointwiseNorm(_vf(_sp()), weighting=[1.0, 4.0]))
    recipe('PointwiseInner/' + _nm, [TENS + 'PointwiseInner'], linear=True, deriv=True)(
        lambda ctx, _sp=_sp: odl.PointwiseInner(_vf(_sp()), ctx.element(_vf(_sp()), 'm')))
    recipe('PointwiseInner/%s/weighted' % _nm, [TENS + 'PointwiseInner'], linear=True, deriv=True)(
        lambda ctx, _sp=_sp: odl.PointwiseInner(_vf(_sp()), ctx.element(_vf(_sp()), 'm'), weighting=[1.0, 4.0]))
    recipe('PointwiseInnerAdjoint/' + _nm, [TENS + 'PointwiseInnerAdjoint'], linear=True, deriv=True)(
        lambda ctx, _sp=_sp: odl.operator.tensor_ops.PointwiseInnerAdjoint(_sp(), ctx.element(_vf(_sp()), 'm')))
    recipe('PointwiseSum/' + _nm, [TENS + 'PointwiseSum'], linear=True, deriv=True)(
        lambda ctx, _sp=_sp: odl.PointwiseSum(_vf(_sp())))
recipe('PointwiseNorm/rn/p=inf', [TENS + 'PointwiseNorm'], heavy=True)(
    lambda ctx: odl.PointwiseNorm(_vf(R()), exponent=float('inf')))
def _wvf(kind):
    if kind == 'const':
        return odl.ProductSpace(D3(), 2, weighting=2.0)
    return odl.ProductSpace(D3(), 2, weighting=[1.0, 2.0])


for _wk in ('const', 'array'):
    for _ow, _own in ((None, 'default'), (1.0, 'unit-const'), ([1.0, 1.0], 'unit-array'), ([2.0, 0.5], 'array'),
                      (3.0, 'const')):
        recipe('PointwiseInner/pspace-%s/opweight-%s' % (_wk, _own), [TENS + 'PointwiseInner'], linear=True,
               deriv=True)(
            lambda ctx, _wk=_wk, _ow=_ow: odl.PointwiseInner(_wvf(_wk), ctx.element(_wvf(_wk), 'm'), weighting=_ow))
        recipe('PointwiseSum/pspace-%s/opweight-%s' % (_wk, _own), [TENS + 'PointwiseSum'], linear=True,
               deriv=True)(
            lambda ctx, _wk=_wk, _ow=_ow: odl.PointwiseSum(_wvf(_wk), weighting=_ow))
        recipe('PointwiseInnerAdjoint/pspace-%s/opweight-%s' % (_wk, _own), [TENS + 'PointwiseInnerAdjoint'],
               linear=True, deriv=True)(
            lambda ctx, _wk=_wk, _ow=_ow: odl.operator.tensor_ops.PointwiseInnerAdjoint(
                D3(), ctx.element(_wvf(_wk), 'm'), vfspace=_wvf(_wk), weighting=_ow))
for _wk in ('const', 'array'):
    for _ow, _own in ((None, 'default'), (1.0, 'unit-const'), ([1.0, 1.0], 'unit-array'), ([2.0, 0.5], 'array')):
        for _p in (2, 1):
            recipe('PointwiseNorm/pspace-%s/opweight-%s/p=%d' % (_wk, _own, _p), [TENS + 'PointwiseNorm'], deriv=True,
                   heavy=(_p == 2 and _own in ('default', 'array')))(
                lambda ctx, _wk=_wk, _ow=_ow, _p=_p: odl.PointwiseNorm(_wvf(_wk), exponent=_p, weighting=_ow))
# vector fields with a single component (the norm is a weighted absolute value)
for _ow, _own in ((None, 'default'), (4.0, 'const'), ([3.0], 'array')):
    for _p in (2, 1):
        recipe('PointwiseNorm/1-component/opweight-%s/p=%d' % (_own, _p), [TENS + 'PointwiseNorm'], deriv=True)(
            lambda ctx, _ow=_ow, _p=_p: odl.PointwiseNorm(odl.ProductSpace(D3(), 1), exponent=_p, weighting=_ow))
recipe('PointwiseInner/cn', [TENS + 'PointwiseInner'], linear=True, deriv=True, cplx=True)(
    lambda ctx: odl.PointwiseInner(_vf(C2()), ctx.element(_vf(C2()), 'm')))
recipe('PointwiseInner/pspace-weighted', [TENS + 'PointwiseInner'], linear=True, deriv=True)(
    lambda ctx: odl.PointwiseInner(odl.ProductSpace(D3(), 2, weighting=[1.0, 2.0]),
                                   ctx.element(odl.ProductSpace(D3(), 2, weighting=[1.0, 2.0]), 'm')))


def _matrix(ctx, shape, dtype='float64'):
    return ctx.array('M', shape, dtype)


recipe('Matrix/rn3->rn2', [TENS + 'MatrixOperator'], linear=True, deriv=True)(
    lambda ctx: odl.MatrixOperator(_matrix(ctx, (2, 3))))
recipe('Matrix/wrn3->rn2', [TENS + 'MatrixOperator'], linear=True, deriv=True)(
    lambda ctx: odl.MatrixOperator(_matrix(ctx, (2, 3)), domain=W3()))
recipe('Matrix/wrn3->explicit-rn2', [TENS + 'MatrixOperator'], linear=True, deriv=True)(
    lambda ctx: odl.MatrixOperator(_matrix(ctx, (2, 3)), domain=W3(), range=R(2)))
recipe('Matrix/arn3->arn3', [TENS + 'MatrixOperator'], linear=True, deriv=True)(
    lambda ctx: odl.MatrixOperator(_matrix(ctx, (3, 3)), domain=A3(), range=A3()))
recipe('Matrix/cn2->cn2', [TENS + 'MatrixOperator'], linear=True, deriv=True, cplx=True)(
    lambda ctx: odl.MatrixOperator(_matrix(ctx, (2, 2), 'complex128'), domain=C2(), range=C2()))
recipe('Matrix/axis1', [TENS + 'MatrixOperator'], linear=True, deriv=True)(
    lambda ctx: odl.MatrixOperator(_matrix(ctx, (2, 3)), domain=odl.rn((2, 3)), axis=1))
recipe('Matrix/axis0-2d', [TENS + 'MatrixOperator'], linear=True, deriv=True)(
    lambda ctx: odl.MatrixOperator(_matrix(ctx, (3, 2)), domain=odl.rn((2, 2)), axis=0))
for _shp in ((3, 3, 2), (2, 3, 2), (2, 2, 3)):
    for _ax in (0, 1, 2):
        recipe('Matrix/3d/%s/axis%d' % ('x'.join(map(str, _shp)), _ax), [TENS + 'MatrixOperator'], linear=True,
               deriv=True, heavy=(_shp != (3, 3, 2)))(
            lambda ctx, _shp=_shp, _ax=_ax: odl.MatrixOperator(_matrix(ctx, (2, _shp[_ax])), domain=odl.rn(_shp),
                                                               axis=_ax))
recipe('Matrix/2d-weighted/axis1', [TENS + 'MatrixOperator'], linear=True, deriv=True)(
    lambda ctx: odl.MatrixOperator(_matrix(ctx, (2, 3)), domain=odl.rn((2, 3), weighting=0.5), axis=1))
recipe('Sampling/point_eval', [TENS + 'SamplingOperator'], linear=True, deriv=True)(
    lambda ctx: odl.SamplingOperator(D23(), [[0, 1, 1], [0, 2, 1]]))
recipe('Sampling/integrate', [TENS + 'SamplingOperator'], linear=True, deriv=True)(
    lambda ctx: odl.SamplingOperator(D23(), [[0, 1, 1], [0, 2, 1]], variant='integrate'))
recipe('Sampling/1d', [TENS + 'SamplingOperator'], linear=True, deriv=True)(
    lambda ctx: odl.SamplingOperator(D3(), [[2, 0]]))
recipe('WeightedSumSampling/char_fun', [TENS + 'WeightedSumSamplingOperator'], linear=True, deriv=True)(
    lambda ctx: odl.WeightedSumSamplingOperator(D23(), [[0, 1, 1], [0, 2, 2]]))
recipe('WeightedSumSampling/dirac', [TENS + 'WeightedSumSamplingOperator'], linear=True, deriv=True)(
    lambda ctx: odl.WeightedSumSamplingOperator(D23(), [[0, 1, 1], [0, 2, 2]], variant='dirac'))
recipe('Flattening/C', [TENS + 'FlatteningOperator'], linear=True, deriv=True)(
    lambda ctx: odl.FlatteningOperator(D23()))
recipe('Flattening/F', [TENS + 'FlatteningOperator'], linear=True, deriv=True)(
    lambda ctx: odl.FlatteningOperator(D23(), order='F'))
recipe('Flattening/rn2d', [TENS + 'FlatteningOperator'], linear=True, deriv=True)(
    lambda ctx: odl.FlatteningOperator(odl.rn((2, 2), weighting=0.5)))


# ------------------------------------------------------------- pspace_ops
def _S(ctx, sp, name):
    return odl.ScalingOperator(sp, ctx.real(name))


recipe('ProductSpaceOperator/2x2', [PSP + 'ProductSpaceOperator'], linear=True, deriv=True)(
    lambda ctx: odl.ProductSpaceOperator([[_S(ctx, R(2), 'a'), None],
                                          [odl.MatrixOperator(ctx.array('M', (2, 2))), _S(ctx, R(2), 'b')]]))
recipe('ProductSpaceOperator/1x2-mixed', [PSP + 'ProductSpaceOperator'], linear=True, deriv=True)(
    lambda ctx: odl.ProductSpaceOperator([[odl.MatrixOperator(ctx.array('M', (3, 2))), _S(ctx, R(3), 'b')]]))
recipe('ProductSpaceOperator/nonlinear', [PSP + 'ProductSpaceOperator'], deriv=True)(
    lambda ctx: odl.ProductSpaceOperator([[odl.PowerOperator(R(2), 2), None],
                                          [_S(ctx, R(2), 'a'), odl.PowerOperator(R(2), 3)]]))
def _pso_layout(ctx, layout):
    """ProductSpaceOperator from a 0/1 layout; 1 = symbolic 2x2 matrix block, 0 = empty."""
    rows = []
    k = 0
    for r in layout:
        row = []
        for e in r:
            if e:
                row.append(odl.MatrixOperator(ctx.array('M%d' % k, (2, 2))))
                k += 1
            else:
                row.append(None)
        rows.append(row)
    n, m = len(layout), len(layout[0])
    return odl.ProductSpaceOperator(rows, domain=odl.ProductSpace(R(2), m), range=odl.ProductSpace(R(2), n))


for _nm, _lay in (('upper-right-only', [[0, 1], [0, 0]]), ('lower-left-only', [[0, 0], [1, 0]]),
                  ('upper-left-only', [[1, 0], [0, 0]]), ('empty-middle-row', [[1, 0, 1], [0, 0, 0], [0, 1, 1]]),
                  ('empty-first-row', [[0, 0], [1, 1]]), ('empty-column', [[1, 0], [1, 0]]),
                  ('1x3', [[1, 0, 1]]), ('3x1', [[1], [0], [1]]), ('anti-diagonal', [[0, 1], [1, 0]])):
    recipe('ProductSpaceOperator/layout/' + _nm, [PSP + 'ProductSpaceOperator'], linear=True, deriv=True)(
        lambda ctx, _lay=_lay: _pso_layout(ctx, _lay))
recipe('ProductSpaceOperator/nonlinear-offdiag', [PSP + 'ProductSpaceOperator'], deriv=True)(
    lambda ctx: odl.ProductSpaceOperator([[None, odl.PowerOperator(R(2), 2)], [odl.PowerOperator(R(2), 3), None]]))
recipe('ProductSpaceOperator/nonlinear-1x3', [PSP + 'ProductSpaceOperator'], deriv=True)(
    lambda ctx: odl.ProductSpaceOperator([[odl.PowerOperator(R(2), 3), odl.PowerOperator(R(2), 2),
                                           odl.ufunc_ops.exp(R(2))]]))
recipe('ProductSpaceOperator/nonlinear-full', [PSP + 'ProductSpaceOperator'], deriv=True)(
    lambda ctx: odl.ProductSpaceOperator([[odl.PowerOperator(R(2), 2), odl.ufunc_ops.sin(R(2))],
                                          [odl.ufunc_ops.exp(R(2)), odl.PowerOperator(R(2), 3)]]))
recipe('ComponentProjection/int', [PSP + 'ComponentProjection'], linear=True, deriv=True)(
    lambda ctx: odl.ComponentProjection(odl.ProductSpace(R(2), R(3)), 1))
recipe('ComponentProjection/list', [PSP + 'ComponentProjection'], linear=True, deriv=True)(
    lambda ctx: odl.ComponentProjection(odl.ProductSpace(R(2), R(3), D3()), [2, 0]))
recipe('ComponentProjection/weighted', [PSP + 'ComponentProjection'], linear=True, deriv=True)(
    lambda ctx: odl.ComponentProjection(odl.ProductSpace(R(2), W3()), 1))
recipe('ComponentProjectionAdjoint/int', [PSP + 'ComponentProjectionAdjoint'], linear=True, deriv=True)(
    lambda ctx: odl.ComponentProjectionAdjoint(odl.ProductSpace(R(2), R(3)), 0))
for _nm, _ix in (('slice', slice(0, 2)), ('stepped-slice', slice(None, None, 2)), ('negative-step', slice(None, None, -2)),
                 ('negative-int', -1), ('tail-slice', slice(1, None))):
    recipe('ComponentProjection/' + _nm, [PSP + 'ComponentProjection'], linear=True, deriv=True)(
        lambda ctx, _ix=_ix: odl.ComponentProjection(odl.ProductSpace(R(2), 3), _ix))
    recipe('ComponentProjectionAdjoint/' + _nm, [PSP + 'ComponentProjectionAdjoint'], linear=True, deriv=True)(
        lambda ctx, _ix=_ix: odl.ComponentProjectionAdjoint(odl.ProductSpace(R(2), 3), _ix))
recipe('ComponentProjectionAdjoint/list', [PSP + 'ComponentProjectionAdjoint'], linear=True, deriv=True)(
    lambda ctx: odl.ComponentProjectionAdjoint(odl.ProductSpace(R(2), R(3), D3()), [2, 0]))
recipe('Broadcast/linear', [PSP + 'BroadcastOperator'], linear=True, deriv=True)(
    lambda ctx: odl.BroadcastOperator(_S(ctx, R(2), 'a'), odl.MatrixOperator(ctx.array('M', (3, 2)))))
recipe('Broadcast/int', [PSP + 'BroadcastOperator'], linear=True, deriv=True)(
    lambda ctx: odl.BroadcastOperator(_S(ctx, D3(), 'a'), 2))
recipe('Broadcast/nonlinear', [PSP + 'BroadcastOperator'], deriv=True)(
    lambda ctx: odl.BroadcastOperator(odl.PowerOperator(R(2), 2), _S(ctx, R(2), 'a')))
recipe('Reduction/linear', [PSP + 'ReductionOperator'], linear=True, deriv=True)(
    lambda ctx: odl.ReductionOperator(_S(ctx, R(3), 'a'), odl.MatrixOperator(ctx.array('M', (3, 2)))))
recipe('Reduction/int', [PSP + 'ReductionOperator'], linear=True, deriv=True)(
    lambda ctx: odl.ReductionOperator(_S(ctx, D3(), 'a'), 2))
recipe('Reduction/nonlinear', [PSP + 'ReductionOperator'], deriv=True)(
    lambda ctx: odl.ReductionOperator(odl.PowerOperator(R(2), 2), _S(ctx, R(2), 'a')))
recipe('Diagonal/linear', [PSP + 'DiagonalOperator'], linear=True, deriv=True)(
    lambda ctx: odl.DiagonalOperator(_S(ctx, R(2), 'a'), odl.MatrixOperator(ctx.array('M', (3, 2)))))
recipe('Diagonal/int', [PSP + 'DiagonalOperator'], linear=True, deriv=True)(
    lambda ctx: odl.DiagonalOperator(_S(ctx, D3(), 'a'), 2))
recipe('Diagonal/nonlinear', [PSP + 'DiagonalOperator'], deriv=True)(
    lambda ctx: odl.DiagonalOperator(odl.PowerOperator(R(2), 2), _S(ctx, R(2), 'a')))

# ---------------------------------------------------- discretized operators
for _m in ('forward', 'backward', 'central'):
    for _pad in ('constant', 'periodic', 'symmetric', 'symmetric_adjoint', 'order0', 'order0_adjoint', 'order1',
                 'order1_adjoint', 'order2', 'order2_adjoint'):
        recipe('PartialDerivative/%s/%s' % (_m, _pad), [DIFF + 'PartialDerivative'], linear=True, deriv=True)(
            lambda ctx, _m=_m, _pad=_pad: odl.PartialDerivative(D23(), axis=1, method=_m, pad_mode=_pad))
        if 'order2' not in _pad:
            recipe('PartialDerivative/%s/%s/2pts' % (_m, _pad), [DIFF + 'PartialDerivative'], linear=True,
                   deriv=True, heavy=True)(
                lambda ctx, _m=_m, _pad=_pad: odl.PartialDerivative(D23(), axis=0, method=_m, pad_mode=_pad))
    for _pad in ('order1', 'order2', 'periodic'):
        recipe('Gradient/%s/%s/3pts' % (_m, _pad), [DIFF + 'Gradient'], linear=True, deriv=True)(
            lambda ctx, _m=_m, _pad=_pad: odl.Gradient(D3(), method=_m, pad_mode=_pad))
        recipe('Divergence/%s/%s/3pts' % (_m, _pad), [DIFF + 'Divergence'], linear=True, deriv=True)(
            lambda ctx, _m=_m, _pad=_pad: odl.Divergence(range=D3(), method=_m, pad_mode=_pad))
recipe('PartialDerivative/affine', [DIFF + 'PartialDerivative'], deriv=True)(
    lambda ctx: odl.PartialDerivative(D3(), axis=0, pad_mode='constant', pad_const=ctx.real('c', nonzero=True)))
recipe('PartialDerivative/nodes_on_bdry', [DIFF + 'PartialDerivative'], linear=True, deriv=True)(
    lambda ctx: odl.PartialDerivative(Dnb(), axis=0, pad_mode='order1'))
recipe('Gradient/nodes_on_bdry', [DIFF + 'Gradient'], linear=True, deriv=True)(
    lambda ctx: odl.Gradient(Dnb(), pad_mode='order1'))
recipe('Divergence/nodes_on_bdry', [DIFF + 'Divergence'], linear=True, deriv=True)(
    lambda ctx: odl.Divergence(range=Dnb(), pad_mode='order1'))
recipe('Laplacian/nodes_on_bdry', [DIFF + 'Laplacian'], linear=True, deriv=True)(
    lambda ctx: odl.Laplacian(Dnb(), pad_mode='symmetric'))
recipe('Resizing/nodes_on_bdry', [DISC + 'ResizingOperator'], linear=True, deriv=True)(
    lambda ctx: odl.ResizingOperator(Dnb(), ran_shp=(5,), pad_mode='order0'))
recipe('Gradient/forward', [DIFF + 'Gradient'], linear=True, deriv=True)(lambda ctx: odl.Gradient(D23()))
recipe('Gradient/central/symmetric', [DIFF + 'Gradient'], linear=True, deriv=True)(
    lambda ctx: odl.Gradient(D23(), method='central', pad_mode='symmetric'))
recipe('Gradient/affine', [DIFF + 'Gradient'], deriv=True)(
    lambda ctx: odl.Gradient(D3(), pad_const=ctx.real('c', nonzero=True)))
# affine variants (constant padding with a non-zero constant) for every method: the derivative is the zero-padding
# operator OF THE SAME METHOD
for _m in ('forward', 'backward', 'central'):
    recipe('Gradient/affine/' + _m, [DIFF + 'Gradient'], deriv=True)(
        lambda ctx, _m=_m: odl.Gradient(D3(), method=_m, pad_mode='constant', pad_const=ctx.real('c', nonzero=True)))
    recipe('Gradient/affine/2d/' + _m, [DIFF + 'Gradient'], deriv=True, heavy=(_m == 'forward'))(
        lambda ctx, _m=_m: odl.Gradient(D23(), method=_m, pad_mode='constant', pad_const=ctx.real('c', nonzero=True)))
    recipe('PartialDerivative/affine/' + _m, [DIFF + 'PartialDerivative'], deriv=True)(
        lambda ctx, _m=_m: odl.PartialDerivative(D23(), axis=1, method=_m, pad_mode='constant',
                                                 pad_const=ctx.real('c', nonzero=True)))
    recipe('Divergence/affine/' + _m, [DIFF + 'Divergence'], deriv=True)(
        lambda ctx, _m=_m: odl.Divergence(range=D3(), method=_m, pad_mode='constant',
                                          pad_const=ctx.real('c', nonzero=True)))
recipe('Laplacian/affine', [DIFF + 'Laplacian'], deriv=True)(
    lambda ctx: odl.Laplacian(D3(), pad_mode='constant', pad_const=ctx.real('c', nonzero=True)))
recipe('Divergence/forward', [DIFF + 'Divergence'], linear=True, deriv=True)(lambda ctx: odl.Divergence(range=D23()))
recipe('Divergence/backward/periodic', [DIFF + 'Divergence'], linear=True, deriv=True)(
    lambda ctx: odl.Divergence(range=D23(), method='backward', pad_mode='periodic'))
recipe('Laplacian/constant', [DIFF + 'Laplacian'], linear=True, deriv=True)(lambda ctx: odl.Laplacian(D23()))
recipe('Laplacian/symmetric', [DIFF + 'Laplacian'], linear=True, deriv=True)(
    lambda ctx: odl.Laplacian(D3(), pad_mode='symmetric'))
for _pad in ('constant', 'periodic', 'symmetric', 'order0', 'order1'):
    recipe('Resizing/extend/' + _pad, [DISC + 'ResizingOperator'], linear=True, deriv=True)(
        lambda ctx, _pad=_pad: odl.ResizingOperator(D3(), ran_shp=(5,), offset=(1,), pad_mode=_pad))
recipe('Resizing/crop', [DISC + 'ResizingOperator'], linear=True, deriv=True)(
    lambda ctx: odl.ResizingOperator(D3(), ran_shp=(2,), offset=(1,)))
recipe('Resizing/2d', [DISC + 'ResizingOperator'], linear=True, deriv=True)(
    lambda ctx: odl.ResizingOperator(D23(), ran_shp=(3, 2), pad_mode='order0'))
recipe('Resizing/affine', [DISC + 'ResizingOperator'], deriv=False)(
    lambda ctx: odl.ResizingOperator(D3(), ran_shp=(5,), pad_const=ctx.real('c', nonzero=True)))
recipe('Resampling/nearest', [DISC + 'Resampling'], linear=True, exempt_adjoint=True)(
    lambda ctx: odl.Resampling(D3(), odl.uniform_discr(0, 0.75, 6), interp='nearest'))
recipe('Resampling/linear', [DISC + 'Resampling'], linear=True, exempt_adjoint=True)(
    lambda ctx: odl.Resampling(D3(), odl.uniform_discr(0, 0.75, 2), interp='linear'))


# ---------------------------------------------------------------- ufunc ops
def _ufunc_pre(name):
    if name in ('sqrt', 'log'):
        return lambda ctx, x: [ctx.assume(v > 0) for v in flat(x)]
    if name in ('reciprocal',):
        return lambda ctx, x: [ctx.assume(v != 0) for v in flat(x)]
    if name in ('absolute', 'sign'):
        return lambda ctx, x: [ctx.assume(v != 0) for v in flat(x)]
    if name in ('divide', 'true_divide'):
        return lambda ctx, x: [ctx.assume(v != 0) for v in flat(x.parts[1])]
    return None


for _u in UFUNC_OPS_1:
    if hasattr(odl.ufunc_ops, _u):
        recipe('ufunc/%s' % _u, ['odl.ufunc_ops.ufunc_ops.%s_op' % _u], deriv=_u not in ('sign', 'conj', 'positive'),
               pre=_ufunc_pre(_u), linear=False)(
            lambda ctx, _u=_u: getattr(odl.ufunc_ops, _u)(R(2)))
for _u in UFUNC_OPS_2:
    if hasattr(odl.ufunc_ops, _u):
        recipe('ufunc/%s' % _u, ['odl.ufunc_ops.ufunc_ops.%s_op' % _u], deriv=False, pre=_ufunc_pre(_u))(
            lambda ctx, _u=_u: getattr(odl.ufunc_ops, _u)(R(2)))


# -------------------------------------------------------- expression classes
def _L(ctx, name, dom=None, ran=None):
    """symbolic linear leaf"""
    dom = dom or R(2)
    ran = ran or dom
    return odl.MatrixOperator(ctx.array(name, (ran.size, dom.size)), domain=dom, range=ran)


def _N(ctx, p=2, sp=None):
    """nonlinear leaf (entry-wise power)"""
    return odl.PowerOperator(sp or R(2), p)


recipe('expr/Sum/linear', [OPER + 'OperatorSum'], linear=True, deriv=True)(
    lambda ctx: _L(ctx, 'A') + _L(ctx, 'B'))
recipe('expr/Sum/nonlinear', [OPER + 'OperatorSum'], deriv=True)(
    lambda ctx: _N(ctx, 2) + _L(ctx, 'B'))
recipe('expr/VectorSum', [OPER + 'OperatorVectorSum'], deriv=True)(
    lambda ctx: _L(ctx, 'A') + ctx.element(R(2), 'v'))
recipe('expr/VectorSum/identity', [OPER + 'OperatorVectorSum'], deriv=True)(
    lambda ctx: odl.IdentityOperator(R(2)) + ctx.element(R(2), 'v'))
recipe('expr/VectorSum/realpart', [OPER + 'OperatorVectorSum'], deriv=True)(
    lambda ctx: odl.RealPart(R(2)) + ctx.element(R(2), 'v'))
recipe('expr/VectorSum/scalar', [OPER + 'OperatorVectorSum'], deriv=True)(
    lambda ctx: odl.IdentityOperator(R(2)) + ctx.real('c'))
recipe('expr/Comp/linear', [OPER + 'OperatorComp'], linear=True, deriv=True)(
    lambda ctx: _L(ctx, 'A', R(3), R(2)) * _L(ctx, 'B', R(2), R(3)))
recipe('expr/Comp/nonlinear', [OPER + 'OperatorComp'], deriv=True)(
    lambda ctx: _N(ctx, 2) * _L(ctx, 'B'))
recipe('expr/Comp/nonlinear2', [OPER + 'OperatorComp'], deriv=True)(
    lambda ctx: _L(ctx, 'B') * _N(ctx, 3))
recipe('expr/LeftScalarMult/linear', [OPER + 'OperatorLeftScalarMult'], linear=True, deriv=True)(
    lambda ctx: ctx.real('a') * _L(ctx, 'A'))
recipe('expr/LeftScalarMult/nonlinear', [OPER + 'OperatorLeftScalarMult'], deriv=True)(
    lambda ctx: ctx.real('a') * _N(ctx, 2))
recipe('expr/LeftScalarMult/complex', [OPER + 'OperatorLeftScalarMult'], linear=True, deriv=True, cplx=True)(
    lambda ctx: ctx.cplx('a') * odl.MatrixOperator(ctx.array('A', (2, 2), 'complex128'), domain=C2(), range=C2()))
recipe('expr/RightScalarMult/nonlinear', [OPER + 'OperatorRightScalarMult'], deriv=True)(
    lambda ctx: _N(ctx, 2) * ctx.real('a'))
recipe('expr/RightScalarMult/affine', [OPER + 'OperatorRightScalarMult'], deriv=True)(
    lambda ctx: (_L(ctx, 'A') + ctx.element(R(2), 'v')) * ctx.real('a'))
recipe('expr/LeftVectorMult/linear', [OPER + 'OperatorLeftVectorMult'], linear=True, deriv=True)(
    lambda ctx: ctx.element(R(2), 'v') * _L(ctx, 'A'))
recipe('expr/LeftVectorMult/nonlinear', [OPER + 'OperatorLeftVectorMult'], deriv=True)(
    lambda ctx: ctx.element(R(2), 'v') * _N(ctx, 2))
recipe('expr/LeftVectorMult/complex', [OPER + 'OperatorLeftVectorMult'], linear=True, deriv=True, cplx=True)(
    lambda ctx: ctx.element(C2(), 'v') * odl.IdentityOperator(C2()))
recipe('expr/LeftVectorMult/real->complex', [OPER + 'OperatorLeftVectorMult'], linear=True, deriv=True, cplx=True)(
    lambda ctx: ctx.element(C2(), 'v') * odl.ComplexEmbedding(R(2), scalar=ctx.cplx('s')))
recipe('expr/LeftVectorMult/complex->real', [OPER + 'OperatorLeftVectorMult'], linear=True, deriv=True, cplx=True)(
    lambda ctx: ctx.element(R(2), 'v') * odl.RealPart(C2()))
recipe('expr/RightVectorMult/real->complex', [OPER + 'OperatorRightVectorMult'], linear=True, deriv=True, cplx=True)(
    lambda ctx: odl.ComplexEmbedding(R(2), scalar=ctx.cplx('s')) * ctx.element(R(2), 'v'))
recipe('expr/RightVectorMult/complex->real', [OPER + 'OperatorRightVectorMult'], linear=True, deriv=True, cplx=True)(
    lambda ctx: odl.ImagPart(C2()) * ctx.element(C2(), 'v'))
recipe('expr/LeftScalarMult/real->complex', [OPER + 'OperatorLeftScalarMult'], linear=True, deriv=True, cplx=True)(
    lambda ctx: ctx.cplx('a') * odl.ComplexEmbedding(R(2)))
recipe('expr/Comp/real->complex->real', [OPER + 'OperatorComp'], linear=True, deriv=True, cplx=True)(
    lambda ctx: odl.RealPart(C2()) * (ctx.element(C2(), 'v') * odl.ComplexEmbedding(R(2))))
recipe('expr/RightVectorMult/linear', [OPER + 'OperatorRightVectorMult'], linear=True, deriv=True)(
    lambda ctx: _L(ctx, 'A') * ctx.element(R(2), 'v'))
recipe('expr/RightVectorMult/nonlinear', [OPER + 'OperatorRightVectorMult'], deriv=True)(
    lambda ctx: _N(ctx, 2) * ctx.element(R(2), 'v'))
recipe('expr/RightVectorMult/complex', [OPER + 'OperatorRightVectorMult'], linear=True, deriv=True, cplx=True)(
    lambda ctx: odl.IdentityOperator(C2()) * ctx.element(C2(), 'v'))
recipe('expr/FunctionalLeftVectorMult', [OPER + 'FunctionalLeftVectorMult'], linear=True, deriv=True)(
    lambda ctx: ctx.element(R(3), 'v') * odl.InnerProductOperator(ctx.element(R(2), 'm')))
recipe('expr/FunctionalLeftVectorMult/nonlinear', [OPER + 'FunctionalLeftVectorMult'], deriv=True)(
    lambda ctx: ctx.element(R(3), 'v') * odl.solvers.L2NormSquared(R(2)))
recipe('expr/PointwiseProduct', [OPER + 'OperatorPointwiseProduct'], deriv=True)(
    lambda ctx: odl.OperatorPointwiseProduct(_L(ctx, 'A'), _N(ctx, 2)))
recipe('expr/neg+pow', [OPER + 'OperatorLeftScalarMult', OPER + 'OperatorComp'], deriv=True)(
    lambda ctx: -(_N(ctx, 2) ** 2))
recipe('expr/weighted-comp', [OPER + 'OperatorComp'], linear=True, deriv=True)(
    lambda ctx: _L(ctx, 'A', W3(), A3()) * _L(ctx, 'B', R(2), W3()))
recipe('expr/discr-sum', [OPER + 'OperatorSum'], linear=True, deriv=True)(
    lambda ctx: odl.PartialDerivative(D3(), 0, pad_mode='order1') + 2 * odl.IdentityOperator(D3()))
# wrappers around an inner operator that must not be called with aliased input and output (finite differences
# document that): the wrapper has to keep its temporaries apart
_PD = lambda pad='order1': odl.PartialDerivative(D3(), 0, pad_mode=pad)          # noqa
recipe('expr/RightVectorMult/finite-difference', [OPER + 'OperatorRightVectorMult'], linear=True, deriv=True)(
    lambda ctx: _PD() * ctx.element(D3(), 'v'))
recipe('expr/LeftVectorMult/finite-difference', [OPER + 'OperatorLeftVectorMult'], linear=True, deriv=True)(
    lambda ctx: ctx.element(D3(), 'v') * _PD())
recipe('expr/RightScalarMult/finite-difference', [OPER + 'OperatorRightScalarMult'], linear=True, deriv=True)(
    lambda ctx: _PD() * ctx.real('a', nonzero=True))
recipe('expr/LeftScalarMult/finite-difference', [OPER + 'OperatorLeftScalarMult'], linear=True, deriv=True)(
    lambda ctx: ctx.real('a', nonzero=True) * _PD())
recipe('expr/Comp/finite-differences', [OPER + 'OperatorComp'], linear=True, deriv=True)(
    lambda ctx: _PD('order0') * _PD('constant'))
recipe('expr/Sum/finite-differences', [OPER + 'OperatorSum'], linear=True, deriv=True)(
    lambda ctx: _PD('order0') + odl.Laplacian(D3(), pad_mode='symmetric'))
recipe('expr/VectorSum/finite-difference', [OPER + 'OperatorVectorSum'], deriv=True)(
    lambda ctx: _PD() + ctx.element(D3(), 'v'))
recipe('expr/PointwiseProduct/finite-differences', [OPER + 'OperatorPointwiseProduct'], deriv=True)(
    lambda ctx: odl.OperatorPointwiseProduct(_PD('order0'), _PD('constant')))


def unregistered():
    """Operator classes (non-functionals) with neither a recipe nor a NOT_ENCODABLE entry."""
    from odl.solvers.functional.functional import Functional
    have = set()
    for r in RECIPES:
        have.update(r.classes)
    out = []
    for name, cls in sorted(all_operator_classes().items()):
        if issubclass(cls, Functional):
            continue
        if name in have or name in NOT_ENCODABLE:
            continue
        if name.startswith('odl.ufunc_ops.ufunc_ops.'):
            continue        # see UFUNC_SKIP_REASON
        out.append(name)
    return out


def by_name(name):
    for r in RECIPES:
        if r.name == name:
            return r
    raise KeyError(name)
