"""C19 — acquisition geometries are rigid-motion consistent for all parameters.

Real code executed: the geometry classes (Parallel2d / Parallel3dAxis / Parallel3dEuler / FanBeam / ConeBeam incl.
helical pitch, curved detectors, shift functions), their detectors, the rotation-matrix utilities, frommatrix,
__getitem__ and the factories parallel_beam_geometry / cone_beam_geometry / helical_geometry.
Symbolic: the angle(s) (through cos/sin applications with c^2+s^2=1, and as a real number where the code uses the
angle itself, e.g. the helical rise), the detector parameters, radii, pitch, offset and translation.  The initial
configuration (axes, initial positions, init matrices) is concrete but generic (not axis aligned)."""
import itertools
import math

import numpy as np
import odl
from odl.tomo.geometry import detector as detmod
from odl.tomo.util import utility as tutil

from symnp.ctx import flat
from symnp.scalars import is_symscalar

PROXY_EXTRA = ('odl.set.domain',)
EXPLANATION = ('C19: every geometry class is built with a generic (not axis-aligned) concrete initial configuration and '
               'symbolic radii / pitch / offset / translation, and evaluated at symbolic angles and detector parameters: '
               'R^T R = I and det R = 1 as polynomial identities modulo cos^2+sin^2=1, det_point_position = refpoint + '
               'R surface, reference formulas for refpoint / source position, det_to_src consistent with the source '
               '(unit length when normalised), parallel rays independent of the detector point and orthogonal to the '
               'detector axes, vectorised / broadcast calls equal to single calls entry by entry with the documented '
               'shape, slices and frommatrix geometries keep the relations, and the factories cover the volume for '
               'every angle.')
BOUNDS = {'quick': {'volumes of the factories': '3 in 2d, 2 in 3d (concrete; centred, one quadrant, off-centre with mixed signs); source radius 1.5 rho (thorough: also 3 rho)', 'detectors': 'Flat1d, Flat2d, Circular, Cylindrical, Spherical with generic axes, symbolic radius', 'slices': '[1:], [::2], [1::2], [2:3], [:3] of a 4-angle partition; concrete angles of the slice', 'initial configurations': '2-3 concrete generic ones per class', 'angles': 'symbolic (1-3 per class)',
                    'detector parameters': 'symbolic', 'vectorised shapes': '(2,), (2,1)x(1,2)'}}
OUTSIDE = ['in the */vectorised configurations: parameter combinations for which a zero-length ray would be '
           'normalised (source on the detector point); the */relations configurations explore that case',
           'symbolic initial axes / init matrices (concrete generic instances are used)',
           'floating-point rounding', 'ASTRA vector conversion (astra_setup: external library)']
ASSUMPTIONS = ['concrete float constants within 1e-13 (relative) of a fraction with denominator <= 10^6 are read as that '
               'fraction (0.6 as 3/5, 6e-17 as 0): the generic unit vectors of the initial configurations are exact',
               'cos/sin are uninterpreted apart from cos^2+sin^2=1 (the identities claimed are polynomial in them)']
SETTINGS = {'strict_definedness': False, 'max_paths': 400, 'obligation_timeout_ms': 30000, 'tol': (1e-9, 8), 'snap_consts': 10 ** 6, 'fold_ground_apps': True}
CFG_TIMEOUT = {'quick': 300, 'thorough': 1200}

AP = odl.uniform_partition(0, 4, 4)
AP2 = odl.uniform_partition([0, 0], [4, 2], (4, 2))
AP3 = odl.uniform_partition([0, 0, 0], [4, 2, 3], (4, 2, 3))
DP1 = odl.uniform_partition(-1, 1, 4)
DP2 = odl.uniform_partition([-1, -2], [1, 2], (4, 2))

U3 = (1 / 3., 2 / 3., 2 / 3.)          # a generic unit axis with rational entries


def unit(v):
    v = np.asarray(v, dtype=float)
    return v / math.sqrt(float(v.dot(v)))


def rot2(c, s):
    return [[c, -s], [s, c]]


def rodrigues(k, c, s):
    k = [float(x) for x in k]
    K = [[0, -k[2], k[1]], [k[2], 0, -k[0]], [-k[1], k[0], 0]]
    return [[c * (1 if i == j else 0) + (1 - c) * k[i] * k[j] + s * K[i][j] for j in range(3)] for i in range(3)]


def matmul(A, B):
    return [[sum(A[i][k] * B[k][j] for k in range(len(B))) for j in range(len(B[0]))] for i in range(len(A))]


def matvec(A, v):
    return [sum(A[i][k] * v[k] for k in range(len(v))) for i in range(len(A))]


def transpose(A):
    return [list(r) for r in zip(*A)]


def det(A):
    if len(A) == 2:
        return A[0][0] * A[1][1] - A[0][1] * A[1][0]
    return (A[0][0] * (A[1][1] * A[2][2] - A[1][2] * A[2][1]) - A[0][1] * (A[1][0] * A[2][2] - A[1][2] * A[2][0])
            + A[0][2] * (A[1][0] * A[2][1] - A[1][1] * A[2][0]))


def dot(a, b):
    return sum(x * y for x, y in zip(a, b))


def cross(a, b):
    return [a[1] * b[2] - a[2] * b[1], a[2] * b[0] - a[0] * b[2], a[0] * b[1] - a[1] * b[0]]


def vadd(*vs):
    return [sum(c) for c in zip(*vs)]


def vscale(a, v):
    return [a * x for x in v]


def tolist(a):
    """nested lists of the raw entries of an array result"""
    a = np.asarray(a, dtype=object) if not isinstance(a, np.ndarray) else a
    return np.asarray(a, dtype=object).tolist() if a.dtype == object else a.tolist()


def fl(x):
    """concrete value of a constant (possibly an engine constant)"""
    if is_symscalar(x):
        from symnp import terms as T
        if T.free_vars([x.t]):
            raise ValueError('not a constant')
        return float(T.evaluate(x.t, {}))
    return float(x)


def cs(ctx, a):
    """(cos a, sin a) in both modes"""
    if ctx.sym:
        return a.cos(), a.sin()
    return math.cos(a), math.sin(a)


# ---------------------------------------------------------------- geometry instances
def build(ctx, name):
    """-> (geom, info); info: kind, ndim, plus the ingredients of the reference formulas"""
    T = odl.tomo
    tr2 = lambda: [ctx.real('t0'), ctx.real('t1')]                          # noqa
    tr3 = lambda: [ctx.real('t0'), ctx.real('t1'), ctx.real('t2')]          # noqa
    kw = dict(check_bounds=False)
    if name == 'par2d/default':
        return T.Parallel2dGeometry(AP, DP1, **kw), dict(kind='par', nd=2, t=[0, 0])
    if name == 'par2d/generic':
        t = tr2()
        g = T.Parallel2dGeometry(AP, DP1, det_pos_init=(1.2, -1.6), det_axis_init=(0.6, 0.8), translation=t, **kw)
        return g, dict(kind='par', nd=2, t=t, p0=[1.2, -1.6], axes=[[0.6, 0.8]])
    if name == 'par2d/rotated-default-axis':
        t = tr2()
        g = T.Parallel2dGeometry(AP, DP1, det_pos_init=(-0.6, 0.8), translation=t, **kw)
        return g, dict(kind='par', nd=2, t=t, p0=[-0.6, 0.8])
    if name == 'par2d/frommatrix':
        M = [[0.6, 0.8, 0.5], [0.8, -0.6, -1.5]]           # mirrored + translated
        g = T.Parallel2dGeometry.frommatrix(AP, DP1, M, **kw)
        return g, dict(kind='par', nd=2, t=[0.5, -1.5], p0=matvec([r[:2] for r in M], [0, 1]),
                       axes=[matvec([r[:2] for r in M], [1, 0])])
    if name == 'par3d-axis/default':
        return T.Parallel3dAxisGeometry(AP, DP2, **kw), dict(kind='par', nd=3, t=[0, 0, 0], axis=(0, 0, 1))
    if name == 'par3d-axis/generic':
        t = tr3()
        g = T.Parallel3dAxisGeometry(AP, DP2, axis=(1, 2, 2), det_pos_init=(2, -2, 1),
                                     det_axes_init=[(2 / 3., 1 / 3., -2 / 3.), (1 / 3., 2 / 3., 2 / 3.)],
                                     translation=t, **kw)
        return g, dict(kind='par', nd=3, t=t, axis=U3, p0=[2, -2, 1],
                       axes=[[2 / 3., 1 / 3., -2 / 3.], [1 / 3., 2 / 3., 2 / 3.]])
    if name == 'par3d-axis/axis-only':
        t = tr3()
        g = T.Parallel3dAxisGeometry(AP, DP2, axis=(0, 3, 4), translation=t, **kw)
        return g, dict(kind='par', nd=3, t=t, axis=(0, 0.6, 0.8))
    if name == 'par3d-axis/frommatrix':
        M = [[0, 0.6, 0.8, 1.0], [1, 0, 0, -2.0], [0, 0.8, -0.6, 0.5]]
        g = T.Parallel3dAxisGeometry.frommatrix(AP, DP2, M, **kw)
        A = [r[:3] for r in M]
        return g, dict(kind='par', nd=3, t=[1.0, -2.0, 0.5], axis=matvec(A, [0, 0, 1]), p0=matvec(A, [0, 1, 0]),
                       axes=[matvec(A, [1, 0, 0]), matvec(A, [0, 0, 1])])
    if name in ('par3d-euler/2-angles', 'par3d-euler/3-angles'):
        t = tr3()
        ap = AP2 if name.endswith('2-angles') else AP3
        g = T.Parallel3dEulerGeometry(ap, DP2, det_pos_init=(2, -2, 1),
                                      det_axes_init=[(2 / 3., 1 / 3., -2 / 3.), (1 / 3., 2 / 3., 2 / 3.)],
                                      translation=t, **kw)
        return g, dict(kind='par', nd=3, t=t, euler=ap.ndim, p0=[2, -2, 1],
                       axes=[[2 / 3., 1 / 3., -2 / 3.], [1 / 3., 2 / 3., 2 / 3.]])
    if name == 'par3d-euler/default':
        return T.Parallel3dEulerGeometry(AP3, DP2, **kw), dict(kind='par', nd=3, t=[0, 0, 0], euler=3)
    if name.startswith('fan/'):
        rs, rd = ctx.real('rs', pos=True), ctx.real('rd', pos=True)
        t = tr2()
        extra = {}
        info = dict(kind='div', nd=2, t=t, rs=rs, rd=rd, d0=[0, 1])
        if 'generic' in name:
            extra.update(src_to_det_init=(0.6, -0.8), det_axis_init=(0.8, 0.6))
            info.update(d0=[0.6, -0.8], axes=[[0.8, 0.6]])
        if 'rotated' in name:
            extra.update(src_to_det_init=(-3, 4))
            info.update(d0=[-0.6, 0.8])
        if 'curved' in name:
            extra.update(det_curvature_radius=2.5)
            info.update(curved=2.5)
        if 'shifts' in name:
            sd, st_, dd, dt_ = ctx.real('sd'), ctx.real('st'), ctx.real('dd'), ctx.real('dt')
            extra.update(src_shift_func=lambda a: np.array([[sd, st_]] * len(a)),
                         det_shift_func=lambda a: [dd, dt_])
            info.update(src_shift=[sd, st_], det_shift=[dd, dt_])
        if 'frommatrix' in name:
            M = [[0.6, 0.8, 0.5], [0.8, -0.6, -1.5]]
            g = T.FanBeamGeometry.frommatrix(AP, DP1, rs, rd, M, **kw)
            A = [r[:2] for r in M]
            info.update(t=[0.5, -1.5], d0=matvec(A, [0, 1]), axes=[matvec(A, [1, 0])])
            return g, info
        g = T.FanBeamGeometry(AP, DP1, rs, rd, translation=t, **dict(kw, **extra))
        return g, info
    if name.startswith('cone/'):
        rs, rd = ctx.real('rs', pos=True), ctx.real('rd', pos=True)
        t = tr3()
        extra = {}
        info = dict(kind='div', nd=3, t=t, rs=rs, rd=rd, d0=[0, 1, 0], axis=(0, 0, 1))
        if 'generic' in name:
            extra.update(axis=(1, 2, 2), src_to_det_init=(2, -2, 1),
                         det_axes_init=[(2 / 3., 1 / 3., -2 / 3.), (1 / 3., 2 / 3., 2 / 3.)])
            info.update(axis=U3, d0=[2 / 3., -2 / 3., 1 / 3.],
                        axes=[[2 / 3., 1 / 3., -2 / 3.], [1 / 3., 2 / 3., 2 / 3.]])
        if 'axis-only' in name:
            extra.update(axis=(0, 3, 4))
            info.update(axis=(0, 0.6, 0.8), d0=None)
        if 'helical' in name:
            pitch, off = ctx.real('pitch'), ctx.real('off')
            extra.update(pitch=pitch, offset_along_axis=off)
            info.update(pitch=pitch, off=off)
        if 'curved' in name:
            extra.update(det_curvature_radius=(2.5, None))
            info.update(curved=(2.5, None))
        if 'spherical' in name:
            extra.update(det_curvature_radius=(2.5, 2.5))
            info.update(curved=(2.5, 2.5))
        if 'shifts' in name:
            s = [ctx.real('s%d' % i) for i in range(3)]
            d = [ctx.real('d%d' % i) for i in range(3)]
            extra.update(src_shift_func=lambda a: np.array([s] * len(a)), det_shift_func=lambda a: d)
            info.update(src_shift=s, det_shift=d)
        if 'frommatrix' in name:
            M = [[0, 0.6, 0.8, 1.0], [1, 0, 0, -2.0], [0, 0.8, -0.6, 0.5]]
            g = T.ConeBeamGeometry.frommatrix(AP, DP2, rs, rd, M, **dict(kw, **{k: v for k, v in extra.items()
                                                                                if k in ('pitch', 'offset_along_axis')}))
            A = [r[:3] for r in M]
            info.update(t=[1.0, -2.0, 0.5], axis=matvec(A, [0, 0, 1]), d0=matvec(A, [0, 1, 0]),
                        axes=[matvec(A, [1, 0, 0]), matvec(A, [0, 0, 1])])
            return g, info
        g = T.ConeBeamGeometry(AP, DP2, rs, rd, translation=t, **dict(kw, **extra))
        return g, info
    raise KeyError(name)


GEOMS = ['par2d/default', 'par2d/generic', 'par2d/rotated-default-axis', 'par2d/frommatrix',
         'par3d-axis/default', 'par3d-axis/generic', 'par3d-axis/axis-only', 'par3d-axis/frommatrix',
         'par3d-euler/2-angles', 'par3d-euler/3-angles', 'par3d-euler/default',
         'fan/default', 'fan/generic', 'fan/rotated', 'fan/generic+shifts', 'fan/curved', 'fan/generic+curved',
         'fan/frommatrix',
         'cone/default', 'cone/generic', 'cone/axis-only', 'cone/generic+helical', 'cone/helical+shifts',
         'cone/generic+curved', 'cone/spherical', 'cone/frommatrix', 'cone/frommatrix+helical']


def configs(tier, seed):
    out = [('entry-by-entry/flying-focal-spot-and-shapes', dict(kind='entrywise-facts', geom='fan+cone')),
           ('parallel3d/non-orthogonal-detector-axes', dict(kind='skew-facts', geom='par3d'))]
    for g in GEOMS:
        out.append(('%s/relations' % g, dict(kind='relations', geom=g)))
        out.append(('%s/vectorised' % g, dict(kind='vectorised', geom=g, _settings={'skip_undefined': True})))
    for v in sorted(VOLUMES):
        out.append(('factory/parallel_beam_geometry/%s' % v, dict(kind='factory', geom='parallel', vol=v)))
        for ratio in ((1.5,) if tier == 'quick' else (1.5, 3.0)):
            out.append(('factory/cone_beam_geometry/%s/src_radius=%g.rho' % (v, ratio),
                        dict(kind='factory', geom='cone', vol=v, ratio=ratio)))
        if v.startswith('3d') and (tier != 'quick' or 'off-centre' in v):
            out.append(('factory/helical_geometry/%s' % v, dict(kind='factory', geom='helical', vol=v, ratio=2.0)))
    for u in UTILITIES:
        out.append(('utility/%s' % u, dict(kind='utility', geom=u)))
    for a in ARGUMENT_CASES:
        out.append(('ndarray-arguments/%s' % a, dict(kind='arguments', geom=a)))
    for d in DETECTORS:
        out.append(('detector/%s' % d, dict(kind='detector', geom=d, _settings={'skip_undefined': True})))
    for g in SLICEABLE:
        for sl in sorted(SLICES):
            out.append(('%s/slice%s' % (g, sl), dict(kind='slice', geom=g, sl=sl, _settings={'skip_undefined': True})))
    return out


SLICEABLE = ['par2d/default', 'cone/spherical', 'par2d/generic', 'par2d/rotated-default-axis', 'par3d-axis/generic',
             'par3d-axis/axis-only', 'fan/generic', 'fan/generic+shifts', 'fan/generic+curved', 'cone/generic',
             'cone/generic+helical', 'cone/helical+shifts', 'cone/generic+curved']
SLICES = {'[1:]': slice(1, None), '[::2]': slice(None, None, 2), '[1::2]': slice(1, None, 2), '[2:3]': slice(2, 3),
          '[:3]': slice(None, 3)}


UTILITIES = ['axis_rotation_matrix/symbolic-unit-axis', 'axis_rotation/symbolic-axis-vector-shift',
             'euler_matrix/3-angles', 'rotation_matrix_from_to/2d', 'rotation_matrix_from_to/3d',
             'perpendicular_vector/symbolic', 'transform_system/matrix']


def utility_case(ctx, name):
    """the rotation utilities themselves, with symbolic axes / vectors"""
    U = tutil
    I3 = np.eye(3).tolist()
    if name.startswith('axis_rotation'):
        k = [ctx.real('k%d' % i, -1, 1) for i in range(3)]
        ctx.assume(dot(k, k) == 1)                         # unit axis (documented precondition)
        a = ctx.angle('a')
        c, s = cs(ctx, a)
        if name.startswith('axis_rotation_matrix'):
            R = tolist(U.axis_rotation_matrix(k, a))
            ctx.eq('R^T.R=I', matmul(transpose(R), R), I3)
            ctx.eq('det(R)=1', det(R), 1)
            ctx.eq('R.axis=axis', matvec(R, k), k)
            v = [ctx.real('v%d' % i, -2, 2) for i in range(3)]
            # Rodrigues: R v = c v + s (k x v) + (1-c)(k.v) k
            ref = vadd(vscale(c, v), vscale(s, cross(k, v)), vscale((1 - c) * dot(k, v), k))
            ctx.eq('R.v=rodrigues', matvec(R, v), ref)
            return
        v = [ctx.real('v%d' % i, -2, 2) for i in range(3)]
        sh = [ctx.real('s%d' % i, -2, 2) for i in range(3)]
        got = tolist(U.axis_rotation(k, a, v, axis_shift=sh))[0]
        shp = vadd(sh, vscale(-dot(k, sh), k))               # part of the shift perpendicular to the axis
        w = vadd(v, vscale(-1, shp))
        ref = vadd(shp, vscale(c, w), vscale(s, cross(k, w)), vscale((1 - c) * dot(k, w), k))
        ctx.eq('rotation-about-the-shifted-axis', got, ref)
        d0 = vadd(v, vscale(-1, shp))
        d1 = vadd(got, vscale(-1, shp))
        ctx.eq('height-along-the-axis-preserved', dot(d1, k), dot(d0, k))
        return
    if name.startswith('euler_matrix'):
        ang = [ctx.angle('a%d' % i) for i in range(3)]
        R = tolist(U.euler_matrix(*ang))
        ctx.eq('R^T.R=I', matmul(transpose(R), R), I3)
        ctx.eq('det(R)=1', det(R), 1)
        R2 = tolist(U.euler_matrix(ang[0]))
        ctx.eq('2d/R^T.R=I', matmul(transpose(R2), R2), np.eye(2).tolist())
        ctx.eq('2d/det(R)=1', det(R2), 1)
        ctx.eq('theta=psi=0-is-a-rotation-about-z', tolist(U.euler_matrix(ang[0], 0.0, 0.0)),
               [[R2[0][0], R2[0][1], 0], [R2[1][0], R2[1][1], 0], [0, 0, 1]])
        return
    if name.startswith('rotation_matrix_from_to'):
        pairs2 = [((1, 0), (0.6, 0.8)), ((0.6, 0.8), (-0.8, 0.6)), ((1, 0), (-1, 0)), ((3, 4), (4, -3)),
                  ((0, 2), (0, 0.5))]
        pairs3 = [((1, 0, 0), (0, 0, 1)), ((1, 2, 2), (2, -2, 1)), ((0, 0, 1), (0, 0, -1)), ((0, 3, 4), (0, 6, 8)),
                  ((2, 1, -2), (-1, -2, -2))]
        for f, t in (pairs2 if name.endswith('2d') else pairs3):
            R = np.asarray(U.rotation_matrix_from_to(f, t), dtype=object).tolist() if ctx.sym else \
                U.rotation_matrix_from_to(f, t).tolist()
            n = len(f)
            tag = '%s->%s' % (f, t)
            ctx.eq('%s/R^T.R=I' % tag, matmul(transpose(R), R), np.eye(n).tolist(), tol=(1e-9, 8))
            ctx.eq('%s/det(R)=1' % tag, det(R), 1, tol=(1e-9, 8))
            ctx.eq('%s/R.from/|from|=to/|to|' % tag, matvec(R, list(unit(f))), list(unit(t)), tol=(1e-9, 8))
        return
    if name.startswith('perpendicular_vector'):
        for nd, lab in ((2, '2d'), (3, '3d')):
            v = [ctx.real('%s_v%d' % (lab, i), -2, 2) for i in range(nd)]
            ctx.assume(dot(v, v) > 0)
            p = tolist(U.perpendicular_vector(v))
            ctx.eq('%s/perpendicular' % lab, dot(p, v), 0)
            ctx.eq('%s/unit-length' % lab, dot(p, p), 1)
        return
    if name.startswith('transform_system'):
        M = [[0, 0.6, 0.8], [1, 0, 0], [0, 0.8, -0.6]]
        pv = [ctx.real('p%d' % i, -2, 2) for i in range(3)]
        o1 = [ctx.real('o%d' % i, -2, 2) for i in range(3)]
        res = U.transform_system(pv, None, [o1, None], matrix=M)
        ctx.eq('principal=M.principal', res[0], matvec(M, pv))
        ctx.eq('other=M.other', res[1], matvec(M, o1))
        ctx.fact('None-passed-through', res[2] is None)
        return
    raise KeyError(name)


ARGUMENT_CASES = ['par2d', 'par3d-axis', 'par3d-euler', 'fan', 'cone']


def arguments_case(ctx, name):
    """all vector arguments given as float64 ndarrays (which constructors may alias): a second geometry built from
    the same arrays, and slices, yield the same vectors as the first one did right after its construction"""
    T = odl.tomo
    from symnp import proxy
    was = proxy.STATE.armed
    proxy.STATE.armed = False
    try:
        f = lambda *v: np.array(v, dtype='float64')          # noqa
        if name == 'par2d':
            args = dict(det_pos_init=f(1.2, -1.6), det_axis_init=f(0.6, 0.8), translation=f(0.5, -1.5))
            mk = lambda: T.Parallel2dGeometry(AP, DP1, **args)                            # noqa
        elif name == 'par3d-axis':
            args = dict(axis=f(1, 2, 2), det_pos_init=f(2, -2, 1), translation=f(1, -2, 0.5),
                        det_axes_init=[f(2 / 3., 1 / 3., -2 / 3.), f(1 / 3., 2 / 3., 2 / 3.)])
            mk = lambda: T.Parallel3dAxisGeometry(AP, DP2, **args)                        # noqa
        elif name == 'par3d-euler':
            args = dict(det_pos_init=f(2, -2, 1), translation=f(1, -2, 0.5),
                        det_axes_init=[f(2 / 3., 1 / 3., -2 / 3.), f(1 / 3., 2 / 3., 2 / 3.)])
            mk = lambda: T.Parallel3dEulerGeometry(AP2, DP2, **args)                      # noqa
        elif name == 'fan':
            args = dict(src_to_det_init=f(1.2, -1.6), det_axis_init=f(0.8, 0.6), translation=f(0.5, -1.5))
            mk = lambda: T.FanBeamGeometry(AP, DP1, 2.0, 3.0, **args)                     # noqa
        else:
            args = dict(axis=f(1, 2, 2), src_to_det_init=f(4, -4, 2), translation=f(1, -2, 0.5), pitch=1.5,
                        det_axes_init=[f(2 / 3., 1 / 3., -2 / 3.), f(1 / 3., 2 / 3., 2 / 3.)])
            mk = lambda: T.ConeBeamGeometry(AP, DP2, 2.0, 3.0, **args)                    # noqa
        g1 = mk()
    finally:
        proxy.STATE.armed = was
    nd = g1.ndim
    info = dict(nd=nd, kind='par' if name.startswith('par') else 'div')
    u = dparams_for(ctx, g1)
    if name == 'par3d-euler':
        angles = [(0.5, 0.25), (2.5, 1.75)]
    else:
        angles = [0.5, 2.5]
    first = [observe(g1, info, a, u) for a in angles]
    g2 = mk()                                   # same argument arrays again
    for a, obs0 in zip(angles, first):
        o1, o2 = observe(g1, info, a, u), observe(g2, info, a, u)
        for k in sorted(obs0):
            ctx.eq('first-geometry-unchanged-by-building-a-second/%s' % k, o1[k], obs0[k])
            ctx.eq('second-geometry-from-the-same-arrays=first/%s' % k, o2[k], obs0[k])
    if hasattr(type(g1), '__getitem__') and name != 'par3d-euler':
        s_ = g1[2:]
        a = 2.5
        obs_s, obs_g = observe(s_, info, a, u), observe(g1, info, a, u)
        for k in sorted(obs_g):
            ctx.eq('slice=original/%s' % k, obs_s[k], first[1][k])
            ctx.eq('original-unchanged-by-slicing/%s' % k, obs_g[k], first[1][k])


DETECTORS = ['flat1d/generic-axis', 'flat2d/generic-axes', 'circular/generic-axis', 'cylindrical/generic-axes',
             'spherical/generic-axes']


def detector_case(ctx, name):
    """intrinsic relations of the detector parametrisations: reference point at parameter 0, surface_deriv is the
    derivative of surface (forward-mode AD of the real surface code), unit normal orthogonal to the tangents,
    surface_measure = |tangent| resp. |tangent_u x tangent_v|, points of curved detectors at distance `radius`
    from the centre of curvature, vectorised = single evaluation"""
    from symnp.scalars import SD
    D = detmod
    rad = ctx.real('radius', 0.5, 4) if not name.startswith('flat') else None
    kw = dict(check_bounds=False)
    if name.startswith('flat1d'):
        det, nd, npar = D.Flat1dDetector(DP1, axis=(0.6, 0.8), **kw), 2, 1
    elif name.startswith('flat2d'):
        det, nd, npar = D.Flat2dDetector(DP2, axes=[(2 / 3., 1 / 3., -2 / 3.), (1 / 3., 2 / 3., 2 / 3.)], **kw), 3, 2
    elif name.startswith('circular'):
        det, nd, npar = D.CircularDetector(DP1, axis=(0.6, 0.8), radius=rad, **kw), 2, 1
    elif name.startswith('cylindrical'):
        det, nd, npar = D.CylindricalDetector(DP2, axes=[(2 / 3., 1 / 3., -2 / 3.), (1 / 3., 2 / 3., 2 / 3.)],
                                              radius=rad, **kw), 3, 2
    else:
        det, nd, npar = D.SphericalDetector(DP2, axes=[(2 / 3., 1 / 3., -2 / 3.), (1 / 3., 2 / 3., 2 / 3.)],
                                            radius=rad, **kw), 3, 2
    ps = [ctx.real('p%d' % i, -1, 1) for i in range(npar)]
    arg = ps[0] if npar == 1 else tuple(ps)
    zero = 0.0 if npar == 1 else (0.0, 0.0)
    surf = tolist(det.surface(arg))
    ctx.eq('surface(0)=0', tolist(det.surface(zero)), [0] * nd)
    deriv = tolist(det.surface_deriv(arg))
    derivs = [deriv] if npar == 1 else deriv
    # derivative by forward-mode AD (symbolic) / central differences (concrete replay)
    for i in range(npar):
        if ctx.sym:
            dual = [SD(p, 1 if j == i else 0) for j, p in enumerate(ps)]
            val = tolist(det.surface(dual[0] if npar == 1 else tuple(dual)))
            tang = [v.t if isinstance(v, SD) else 0 for v in val]
        else:
            h = 1e-6
            up = [p + (h if j == i else 0) for j, p in enumerate(ps)]
            dn = [p - (h if j == i else 0) for j, p in enumerate(ps)]
            f = lambda q: np.asarray(det.surface(q[0] if npar == 1 else tuple(q)), dtype=float)     # noqa
            tang = list((f(up) - f(dn)) / (2 * h))
        ctx.eq('surface_deriv[%d]=d surface/d p%d' % (i, i), derivs[i], tang)
    # at the reference point the tangents point along the axes the detector was aligned with
    t0 = tolist(det.surface_deriv(zero))
    t0 = [t0] if npar == 1 else t0
    given = [[0.6, 0.8]] if nd == 2 else [[2 / 3., 1 / 3., -2 / 3.], [1 / 3., 2 / 3., 2 / 3.]]
    for i in range(npar):
        along = dot(t0[i], given[i])
        ctx.eq('tangent-at-reference-point[%d]-parallel-to-axis[%d]' % (i, i), t0[i], vscale(along, given[i]),
               tol=(1e-9, 8))
        ctx.le('tangent-at-reference-point[%d]-same-direction' % i, 0, along)
    normal = tolist(det.surface_normal(arg))
    ctx.eq('|normal|=1', dot(normal, normal), 1)
    for i in range(npar):
        ctx.eq('normal.tangent[%d]=0' % i, dot(normal, derivs[i]), 0)
    meas = det.surface_measure(arg)
    if npar == 1:
        ctx.eq('measure^2=|tangent|^2', meas * meas, dot(derivs[0], derivs[0]))
    else:
        cr = cross(derivs[0], derivs[1])
        ctx.eq('measure^2=|tangent_u x tangent_v|^2', meas * meas, dot(cr, cr))
        ctx.le('right-handed (tangent_u, tangent_v, normal)', 0, dot(cr, normal))
    ctx.le('measure>=0', 0, meas)
    if rad is not None:
        # centre of curvature: documented as the detector's `translation`; it lies at distance `radius` from the
        # reference point, on the normal line through it
        centre = tolist(det.translation)
        n0 = tolist(det.surface_normal(zero))
        ctx.eq('centre-of-curvature-on-the-normal-through-the-reference-point', dot(centre, n0) * dot(centre, n0),
               rad * rad)
        ctx.eq('|centre-of-curvature|=radius', dot(centre, centre), rad * rad)
        rel = vadd(surf, vscale(-1, centre))
        if name.startswith('cylindrical'):
            ax1 = tolist(det.axes)[1]
            rel = vadd(rel, vscale(-dot(rel, ax1), ax1))       # distance from the cylinder axis
        ctx.eq('distance-from-the-centre-of-curvature=radius', dot(rel, rel), rad * rad)
    # vectorised
    qs = [ctx.real('q%d' % i, -1, 1) for i in range(npar)]

    def stack(x, y):
        arr = np.empty(2, dtype=object)
        arr[0], arr[1] = x, y
        if ctx.sym:
            from symnp.sarray import wrap
            return wrap(arr, np.dtype('float64'))
        return arr.astype(float)
    both = stack(ps[0], qs[0]) if npar == 1 else tuple(stack(p, q) for p, q in zip(ps, qs))
    arg2 = qs[0] if npar == 1 else tuple(qs)
    for meth in ('surface', 'surface_deriv', 'surface_normal', 'surface_measure'):
        f = getattr(det, meth)
        ctx.eq('%s(stack)=singles' % meth, f(both), [tolist(f(arg)), tolist(f(arg2))])


VOLUMES = {          # the farthest corner from the rotation axis has a rational distance (exact constants)
    '2d/centred': ([-3, -4], [3, 4], (6, 8)),
    '2d/off-centre-mixed-signs': ([-3, -6], [8, 4], (11, 10)),      # farthest corner (8, -6): neither min_pt nor max_pt
    '2d/one-quadrant': ([3, 4], [6, 8], (3, 4)),
    '3d/centred': ([-3, -4, -2], [3, 4, 2], (6, 8, 4)),
    '3d/off-centre-mixed-signs': ([-3, -6, -1], [8, 4, 3], (11, 10, 4)),
}


def canaries(tier, seed):
    return [('canary/par3d', dict(kind='relations', geom='par3d-axis/generic')),
            ('canary/cone', dict(kind='relations', geom='cone/generic+helical'))]


def angles_for(ctx, g, info, suffix=''):
    """symbolic motion parameter(s) and the reference rotation matrix"""
    nd = info['nd']
    if info.get('euler'):
        n = info['euler']
        a = [ctx.angle('a%d%s' % (i, suffix)) for i in range(n)]
        c = [cs(ctx, x) for x in a]
        Rz = lambda c_, s_: [[c_, -s_, 0], [s_, c_, 0], [0, 0, 1]]          # noqa
        Rx = lambda c_, s_: [[1, 0, 0], [0, c_, -s_], [0, s_, c_]]          # noqa
        R = matmul(Rz(*c[0]), Rx(*c[1]))
        if n == 3:
            R = matmul(R, Rz(*c[2]))
        return tuple(a), R
    a = ctx.angle('a' + suffix)
    c, s = cs(ctx, a)
    if nd == 2:
        return a, rot2(c, s)
    return a, rodrigues(info['axis'], c, s)


def dparams_for(ctx, g, suffix=''):
    if g.det_params.ndim == 1:
        return ctx.real('u' + suffix, -1, 1)
    return (ctx.real('u' + suffix, -1, 1), ctx.real('v' + suffix, -2, 2))


def observe(g, info, a, u):
    """the vectors of the geometry at concrete/symbolic (a, u), as nested lists"""
    nd = info['nd']
    obs = {'rotation_matrix': tolist(g.rotation_matrix(a)), 'det_refpoint': tolist(g.det_refpoint(a)),
           'det_point_position': tolist(g.det_point_position(a, u)), 'det_to_src': tolist(g.det_to_src(a, u)),
           'det_axes': tolist(g.det_axis(a) if nd == 2 else g.det_axes(a)), 'translation': tolist(g.translation)}
    if info['kind'] == 'div':
        obs['src_position'] = tolist(g.src_position(a))
        obs['det_to_src(unnormalised)'] = tolist(g.det_to_src(a, u, normalized=False))
    else:
        obs['det_pos_init'] = tolist(g.det_pos_init)
    return obs


def factory_case(ctx, which, vol, ratio):
    """the geometry derived from a reconstruction space covers the volume: for every angle of the motion range, the
    ray through every corner of the volume hits the detector inside its parameter range"""
    lo, hi, shape = VOLUMES[vol]
    nd = len(lo)
    from symnp import proxy
    was = proxy.STATE.armed
    proxy.STATE.armed = False           # the space and the factory's arithmetic on its extent are concrete
    try:
        space = odl.uniform_discr(lo, hi, shape)
        rho = max(math.hypot(x, y) for x in (lo[0], hi[0]) for y in (lo[1], hi[1]))
        if which == 'parallel':
            g = odl.tomo.parallel_beam_geometry(space)
        elif which == 'cone':
            g = odl.tomo.cone_beam_geometry(space, src_radius=ratio * rho, det_radius=2 * rho)
        else:
            g = odl.tomo.helical_geometry(space, src_radius=ratio * rho, det_radius=2 * rho, num_turns=2, n_pi=1)
    finally:
        proxy.STATE.armed = was
    corners = [list(map(float, c)) for c in space.domain.corners()]
    amin, amax = float(g.motion_params.min_pt[0]), float(g.motion_params.max_pt[0])
    a = ctx.angle('a', lo=amin, hi=amax)
    if abs(amin) < 1e-12 and abs(amax - math.pi) < 1e-12:
        ctx.assume(cs(ctx, a)[1] >= 0)          # the half circle [0, pi]: links the uninterpreted sine to the range
    dmin = [float(x) for x in g.det_params.min_pt]
    dmax = [float(x) for x in g.det_params.max_pt]
    ref = tolist(g.det_refpoint(a))
    axes = [tolist(g.det_axis(a))] if nd == 2 else tolist(g.det_axes(a))
    horizontal_only = which == 'helical'        # the helical detector height is a Tam-Danielsson window, not coverage
    if which == 'parallel':
        for ci, x in enumerate(corners):
            rel = vadd(x, vscale(-1, ref))
            for k, ax in enumerate(axes):
                u = dot(rel, ax)
                ctx.le('corner%d/axis%d/inside-upper' % (ci, k), u, dmax[k], slack=1e-9)
                ctx.le('corner%d/axis%d/inside-lower' % (ci, k), dmin[k], u, slack=1e-9)
        return
    src = tolist(g.src_position(a))
    D = vadd(ref, vscale(-1, src))
    DD = dot(D, D)
    # The factories size the flat detector with w/2 = rho (rs+rd)/rs and h/2 = sin(beta) (rs+rd), tan(beta) =
    # |z|max/(rs-rho) (known finding: the tangent rays need rho (rs+rd)/sqrt(rs^2-rho^2) and tan(beta) (rs+rd)).
    # What those sizes do cover for every angle is the cylinder of radius rho rs/sqrt(rs^2+rho^2) and the heights
    # z cos(beta): the 'inner-corner' points, which must be covered without exception.
    rs = ratio * rho
    r_c = rho * rs / math.hypot(rs, rho)
    zmax = max(abs(lo[2]), abs(hi[2])) if nd == 3 else 0.0
    cosb = math.cos(math.atan(zmax / (rs - rho))) if nd == 3 else 1.0
    shrink = [r_c / rho * (1 - 1e-9), r_c / rho * (1 - 1e-9), cosb * (1 - 1e-9)][:nd]
    for kind_, pts in (('corner', corners), ('inner-corner', [[c * f for c, f in zip(x, shrink)] for x in corners])):
        for ci, x in enumerate(pts):
            xs = vadd(x, vscale(-1, src))
            den = dot(xs, D)                        # > 0: the source is outside the volume
            if kind_ == 'corner':
                ctx.le('corner%d/in-front-of-the-source' % ci, 0, den)
            for k, ax in enumerate(axes):
                if horizontal_only and k == 1:
                    continue
                num = DD * dot(xs, ax)              # detector coordinate u = num / den
                ctx.le('%s%d/axis%d/inside-upper' % (kind_, ci, k), num, dmax[k] * den, slack=1e-9)
                ctx.le('%s%d/axis%d/inside-lower' % (kind_, ci, k), dmin[k] * den, num, slack=1e-9)


def _entrywise_facts(ctx):
    """Vectorised evaluation = entry-by-entry single evaluation, for angle arrays that are strided, reversed, unsorted
    or of length 1, with angle-dependent (flying focal spot) source shifts; documented output shapes (concrete
    facts)."""
    from symnp import proxy
    from odl.tomo.util.source_detector_shifts import flying_focal_spot
    was, proxy.STATE.armed = proxy.STATE.armed, False
    try:
        apart = odl.uniform_partition(0, 2 * np.pi, 8)
        geoms = []
        sh2 = np.array([[0.0, 0.125], [0.0, -0.25], [0.0625, 0.0]])
        geoms.append(('fan', odl.tomo.FanBeamGeometry(
            apart, odl.uniform_partition(-1, 1, 5), src_radius=2, det_radius=3,
            src_shift_func=lambda a: flying_focal_spot(a, apart, sh2)), 0.25))
        sh3 = np.array([[0.0, 0.125, 0.0], [0.0, -0.25, 0.0625], [0.03125, 0.0, -0.125]])
        geoms.append(('cone', odl.tomo.ConeBeamGeometry(
            apart, odl.uniform_partition([-1, -1], [1, 1], (5, 4)), src_radius=2, det_radius=3,
            src_shift_func=lambda a: flying_focal_spot(a, apart, sh3)), [0.25, -0.5]))
        geoms.append(('fan-plain', odl.tomo.FanBeamGeometry(apart, odl.uniform_partition(-1, 1, 5), src_radius=2,
                                                             det_radius=3), 0.25))
        geoms.append(('par2d', odl.tomo.Parallel2dGeometry(apart, odl.uniform_partition(-1, 1, 5)), 0.25))
        geoms.append(('par3d', odl.tomo.Parallel3dAxisGeometry(apart, odl.uniform_partition([-1, -1], [1, 1], (5, 4))),
                      [0.25, -0.5]))
        ang = apart.grid.coord_vectors[0]
        sels = {'strided': ang[::2], 'reversed': ang[::-1], 'unsorted': ang[[5, 1, 6, 2]], 'tail': ang[3:],
                'length-1': ang[2:3], 'all': ang}
        for gname, g, dp in geoms:
            nd = g.ndim
            for sname, a in sorted(sels.items()):
                for fname in ('src_position', 'det_refpoint', 'rotation_matrix'):
                    f = getattr(g, fname, None)
                    if f is None:
                        continue
                    vec = f(a)
                    single = np.array([f(float(t)) for t in a])
                    ctx.fact('%s/%s/%s/entry-by-entry' % (gname, fname, sname),
                             vec.shape == single.shape and np.allclose(vec, single),
                             'shape %s vs %s, max diff %s' % (vec.shape, single.shape,
                                                              np.abs(vec - single).max() if vec.shape == single.shape else '-'))
                for fname in ('det_point_position', 'det_to_src'):
                    f = getattr(g, fname)
                    vec = f(a, dp)
                    single = np.array([f(float(t), dp) for t in a])
                    ctx.fact('%s/%s/%s/entry-by-entry' % (gname, fname, sname),
                             vec.shape == single.shape and np.allclose(vec, single),
                             'shape %s vs %s' % (vec.shape, single.shape))
                    ctx.fact('%s/%s/%s/documented-shape' % (gname, fname, sname), vec.shape == (len(a), nd),
                             'shape %s for %d angles' % (vec.shape, len(a)))
    finally:
        proxy.STATE.armed = was


def _skew_facts(ctx):
    """Parallel 3-d geometries whose detector axes are linearly independent but not orthogonal: the ray direction is
    a unit vector orthogonal to both (rotated) detector axes (concrete facts)."""
    from symnp import proxy
    was, proxy.STATE.armed = proxy.STATE.armed, False
    try:
        apart = odl.uniform_partition(0, np.pi, 4)
        dpart = odl.uniform_partition([-1, -1], [1, 1], (3, 2))
        for nm, axes in (('skew', ((1, 0, 0), (1, 0, 1))), ('skew2', ((0, 1, 0), (0, 1, 2))),
                         ('orthogonal', ((1, 0, 0), (0, 0, 1)))):
            for cname, mk in (('axis', lambda ax: odl.tomo.Parallel3dAxisGeometry(apart, dpart, det_axes_init=ax)),
                              ('euler', lambda ax: odl.tomo.Parallel3dEulerGeometry(
                                  odl.uniform_partition([0, 0], [np.pi, np.pi], (3, 2)), dpart, det_axes_init=ax))):
                try:
                    g = mk(axes)
                except ValueError:
                    ctx.fact('%s/%s/refused' % (cname, nm), True)
                    continue
                angle = [0.7, 0.3] if cname == 'euler' else 0.7
                d = np.asarray(g.det_to_src(angle, [0.25, -0.5]))
                ax_rot = np.asarray(g.det_axes(angle))
                ctx.fact('%s/%s/ray-direction-is-a-unit-vector' % (cname, nm), abs(np.linalg.norm(d) - 1) < 1e-12,
                         'norm %r' % np.linalg.norm(d))
                ctx.fact('%s/%s/ray-orthogonal-to-detector-axes' % (cname, nm),
                         np.allclose(ax_rot.dot(d), 0, atol=1e-12), 'dots %s' % ax_rot.dot(d))
                d2 = np.asarray(g.det_to_src(angle, [-0.75, 0.5]))
                ctx.fact('%s/%s/same-direction-for-all-detector-points' % (cname, nm), np.allclose(d, d2))
    finally:
        proxy.STATE.armed = was


def case(ctx, kind, geom, sl=None, vol=None, ratio=None):
    bump = 1 if ctx.canary else 0
    if kind == 'entrywise-facts':
        return _entrywise_facts(ctx)
    if kind == 'skew-facts':
        return _skew_facts(ctx)
    if kind == 'factory':
        return factory_case(ctx, geom, vol, ratio)
    if kind == 'detector':
        return detector_case(ctx, geom)
    if kind == 'utility':
        return utility_case(ctx, geom)
    if kind == 'arguments':
        return arguments_case(ctx, geom)
    g, info = build(ctx, geom)
    nd = info['nd']
    t = info['t']
    if kind == 'relations':
        a, Rref = angles_for(ctx, g, info)
        u = dparams_for(ctx, g)
        R = tolist(g.rotation_matrix(a))
        ctx.eq('rotation_matrix=reference', R, Rref)
        RtR = matmul(transpose(R), R)
        ctx.eq('R^T.R=I', RtR, np.eye(nd).tolist())
        ctx.eq('det(R)=1', det(R), 1 + bump)
        surf = tolist(g.detector.surface(u))
        ref = tolist(g.det_refpoint(a))
        pos = tolist(g.det_point_position(a, u))
        ctx.eq('det_point_position=refpoint+R.surface', pos, vadd(ref, matvec(R, surf)))
        if nd == 2:
            axes = [tolist(g.det_axis(a))]
            axes_init = [tolist(g.det_axis_init)]
        else:
            axes = tolist(g.det_axes(a))
            axes_init = tolist(g.det_axes_init)
        ctx.eq('det_axes=R.det_axes_init', axes, [matvec(R, ax) for ax in axes_init])
        if info.get('axes'):
            ctx.eq('det_axes_init=normalised-argument', axes_init, [list(unit(ax)) for ax in info['axes']],
                   tol=(1e-9, 8))
        if info.get('curved'):
            zero = 0.0 if nd == 2 else (0.0, 0.0)
            t0 = tolist(g.detector.surface_deriv(zero))
            t0 = [t0] if nd == 2 else t0
            for i, ax in enumerate(axes_init):
                along = dot(t0[i], ax)
                ctx.eq('curved-detector-tangent-at-reference-point[%d]-along-det_axes_init' % i, t0[i],
                       vscale(along, ax), tol=(1e-9, 8))
                ctx.le('curved-detector-tangent[%d]-same-direction' % i, 0, along)
        if not info.get('curved'):
            uu = [u] if nd == 2 else list(u)
            ctx.eq('flat-surface=sum(u_i.axis_i)', surf, vadd(*[vscale(ui, ax) for ui, ax in zip(uu, axes_init)]))
        if info['kind'] == 'par':
            p0 = tolist(g.det_pos_init)
            if info.get('p0') is not None:
                ctx.eq('det_pos_init=argument+translation', p0, vadd(info['p0'], t), tol=(1e-9, 8))
            ctx.eq('det_refpoint=t+R(p0-t)', ref, vadd(t, matvec(R, vadd(p0, vscale(-1, t)))))
            d2s = tolist(g.det_to_src(a, u))
            for i, ax in enumerate(axes):
                ctx.eq('det_to_src.det_axis[%d]=0' % i, dot(d2s, ax), 0)
            ctx.eq('|det_to_src|=1', dot(d2s, d2s), 1)
            u2 = dparams_for(ctx, g, '2')
            ctx.eq('det_to_src-same-for-all-detector-points', tolist(g.det_to_src(a, u2)), d2s)
            normal0 = tolist(g.detector.surface_normal(u))
            ctx.eq('det_to_src=R.normal', d2s, matvec(R, normal0))
            if nd == 3:
                ctx.eq('normal=axis0 x axis1', normal0, cross(axes_init[0], axes_init[1]), tol=(1e-9, 8))
            if info.get('p0') is None and not info.get('axes'):
                # default relative orientation: the rays travel from the source side through the centre to the
                # detector, i.e. det_to_src points from the detector reference point to the rotation centre
                c2d = vadd(ref, vscale(-1, t))
                nrm2 = dot(c2d, c2d)
                ctx.le('det_to_src-points-towards-the-centre', dot(d2s, c2d), 0)
                ctx.eq('det_to_src-antiparallel-to-centre->detector', dot(d2s, c2d) * dot(d2s, c2d), nrm2)
        else:
            rs, rd = info['rs'], info['rd']
            src = tolist(g.src_position(a))
            d0 = tolist(g.src_to_det_init)
            if info.get('d0') is not None:
                ctx.eq('src_to_det_init=normalised-argument', d0, list(unit(info['d0'])), tol=(1e-9, 8))
            if nd == 2:
                tan_d = [-d0[1], d0[0]]          # documented: tangent shifts
                tan_s = [d0[1], -d0[0]]
                rise = [0, 0]
            else:
                k = [float(x) for x in info['axis']]
                tan_d = vscale(-1, cross([fl(x) for x in d0], k))
                nt = math.sqrt(sum(fl(x) ** 2 for x in tan_d))
                tan_d = vscale(1 / nt, tan_d)
                tan_s = vscale(-1, tan_d)
                pitch, off = info.get('pitch', 0), info.get('off', 0)
                h = off + pitch * a / (2 * math.pi)
                rise = None
            ss, ds = info.get('src_shift'), info.get('det_shift')
            c2s = vscale(-rs, d0)
            c2d = vscale(rd, d0)
            hs = hd = 0
            if ss is not None:
                c2s = vadd(c2s, vscale(-ss[0], d0), vscale(ss[1], tan_s))
                c2d = vadd(c2d, vscale(ds[0], d0), vscale(ds[1], tan_d))
                if nd == 3:
                    hs, hd = ss[2], ds[2]
            src_ref = vadd(t, matvec(R, c2s))
            det_ref = vadd(t, matvec(R, c2d))
            if nd == 3:
                src_ref = vadd(src_ref, vscale(h + hs, k))
                det_ref = vadd(det_ref, vscale(h + hd, k))
            ctx.eq('src_position=t+R(-rs.d0+shift)+rise', src, src_ref, tol=(1e-9, 8))
            ctx.eq('det_refpoint=t+R(rd.d0+shift)+rise', ref, [x + bump for x in det_ref], tol=(1e-9, 8))
            raw = tolist(g.det_to_src(a, u, normalized=False))
            ctx.eq('det_to_src(unnormalised)=src-det_point', raw, vadd(src, vscale(-1, pos)))
            d2s = tolist(g.det_to_src(a, u))
            ctx.eq('|det_to_src|=1', dot(d2s, d2s), 1)
            nrm2 = dot(raw, raw)
            ctx.eq('det_to_src-parallel-to-unnormalised', dot(d2s, raw) * dot(d2s, raw), nrm2)
            ctx.le('det_to_src-same-orientation', 0, dot(d2s, raw))
        return
    if kind == 'slice':
        # geom[indices] is the same acquisition restricted to a part of the angles: at every angle of the part it
        # yields the same vectors (all other parameters symbolic); the original is not modified by slicing
        u = dparams_for(ctx, g)
        index = SLICES[sl]
        grid_angles = [float(x) for x in g.angles]
        sub_angles = grid_angles[index]
        probe = sub_angles + [(sub_angles[0] + sub_angles[-1]) / 2 + 0.0625]
        before = [observe(g, info, a, u) for a in probe]
        s = g[index]
        ctx.fact('same-class', type(s) is type(g))
        ctx.fact('angles=angles[indices]', [float(x) for x in s.angles] == sub_angles)
        ctx.fact('motion_partition=motion_partition[indices]', s.motion_partition == g.motion_partition[index])
        ctx.fact('det_partition-unchanged', s.det_partition == g.det_partition)
        for a, obs0 in zip(probe, before):
            obs_g = observe(g, info, a, u)
            obs_s = observe(s, info, a, u)
            for k in sorted(obs0):
                ctx.eq('original-unchanged-by-slicing/%s' % k, obs_g[k], obs0[k])
                ctx.eq('slice=original/%s' % k, obs_s[k], [[x + bump for x in r] if isinstance(r, list) else r + bump
                                                              for r in obs0[k]] if bump else obs0[k])
        return
    if kind == 'vectorised':
        # two symbolic parameter sets; stacked and broadcast calls must equal the single calls entry by entry
        a1, _ = angles_for(ctx, g, info, 'x')
        a2, _ = angles_for(ctx, g, info, 'y')
        u1 = dparams_for(ctx, g, 'x')
        u2 = dparams_for(ctx, g, 'y')
        multi_a = isinstance(a1, tuple)
        multi_u = isinstance(u1, tuple)

        def stack(p, q, shape=None):
            """parameter 'array' of two entries (per component for multi-parameter sets)"""
            def mk(x, y):
                arr = np.empty(2, dtype=object)
                arr[0], arr[1] = x, y
                if not ctx.sym:
                    arr = arr.astype(float)
                else:
                    from symnp.sarray import wrap
                    arr = wrap(arr, np.dtype('float64'))
                return arr.reshape(shape) if shape else arr
            if isinstance(p, tuple):
                return tuple(mk(x, y) for x, y in zip(p, q))
            return mk(p, q)
        A = stack(a1, a2)
        U = stack(u1, u2)
        singles = {
            'rotation_matrix': [tolist(g.rotation_matrix(x)) for x in (a1, a2)],
            'det_refpoint': [tolist(g.det_refpoint(x)) for x in (a1, a2)],
        }
        ctx.eq('rotation_matrix(stack)', g.rotation_matrix(A), singles['rotation_matrix'])
        ctx.fact('rotation_matrix(stack).shape', np.shape(g.rotation_matrix(A)) == (2, nd, nd))
        ctx.eq('det_refpoint(stack)', g.det_refpoint(A), singles['det_refpoint'])
        ctx.fact('det_refpoint(stack).shape', np.shape(g.det_refpoint(A)) == (2, nd))
        if nd == 2:
            ctx.eq('det_axis(stack)', g.det_axis(A), [tolist(g.det_axis(x)) for x in (a1, a2)])
        else:
            ctx.eq('det_axes(stack)', g.det_axes(A), [tolist(g.det_axes(x)) for x in (a1, a2)])
            ctx.fact('det_axes(stack).shape', np.shape(g.det_axes(A)) == (2, 2, 3))
        if info['kind'] == 'div':
            ctx.eq('src_position(stack)', g.src_position(A), [tolist(g.src_position(x)) for x in (a1, a2)])
        ctx.eq('surface(stack)', g.detector.surface(U), [tolist(g.detector.surface(x)) for x in (u1, u2)])
        # paired parameters
        pairs = [(a1, u1), (a2, u2)]
        ctx.eq('det_point_position(pairs)', g.det_point_position(A, U),
               [tolist(g.det_point_position(x, y)) for x, y in pairs])
        ctx.eq('det_to_src(pairs)', g.det_to_src(A, U), [tolist(g.det_to_src(x, y)) for x, y in pairs])
        # one angle, stacked detector parameters and vice versa
        ctx.eq('det_point_position(a, stack)', g.det_point_position(a1, U),
               [tolist(g.det_point_position(a1, y)) for y in (u1, u2)])
        ctx.eq('det_point_position(stack, u)', g.det_point_position(A, u2),
               [tolist(g.det_point_position(x, u2)) for x in (a1, a2)])
        # outer-product broadcasting (2,1) x (1,2)
        Ao = stack(a1, a2, (2, 1))
        Uo = stack(u1, u2, (1, 2))
        outer = g.det_point_position(Ao, Uo)
        ctx.fact('det_point_position(outer).shape', np.shape(outer) == (2, 2, nd))
        ctx.eq('det_point_position(outer)', outer,
               [[tolist(g.det_point_position(x, y)) for y in (u1, u2)] for x in (a1, a2)])
        outer = g.det_to_src(Ao, Uo)
        ctx.eq('det_to_src(outer)', outer,
               [[tolist(g.det_to_src(x, y)) for y in (u1, u2)] for x in (a1, a2)])
        if multi_u:
            # broadcasting *within* the detector parameters: (2,1) against (1,2)
            def col(x, y, shape):
                arr = np.empty(2, dtype=object)
                arr[0], arr[1] = x, y
                if ctx.sym:
                    from symnp.sarray import wrap
                    return wrap(arr, np.dtype('float64')).reshape(shape)
                return arr.astype(float).reshape(shape)
            Ub = (col(u1[0], u2[0], (2, 1)), col(u1[1], u2[1], (1, 2)))
            want = [[tolist(g.detector.surface((p, q))) for q in (u1[1], u2[1])] for p in (u1[0], u2[0])]
            ctx.eq('surface(broadcast-within-detector-parameters)', g.detector.surface(Ub), want)
            want = [[tolist(g.det_point_position(a1, (p, q))) for q in (u1[1], u2[1])] for p in (u1[0], u2[0])]

            def one(x):
                arr = np.empty((1, 1), dtype=object)
                arr[0, 0] = x
                if ctx.sym:
                    from symnp.sarray import wrap
                    return wrap(arr, np.dtype('float64'))
                return arr.astype(float)
            A11 = tuple(one(x) for x in a1) if multi_a else one(a1)
            ctx.eq('det_point_position((1,1)-angle, broadcast-within-detector-parameters)',
                   g.det_point_position(A11, Ub), want)
            ctx.eq('det_point_position(scalar-angle, 2d-detector-parameter-arrays)', g.det_point_position(a1, Ub), want)
        return
    raise ValueError(kind)
