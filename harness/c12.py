"""C12 — solvers decrease what they promise to decrease and have the right fixed points.

Bounded, solver-decidable reformulations (each for all start points / data):
* Landweber: residual does not increase for 0 < omega < 2/|A|^2 (one step, symbolic omega).
* Kaczmarz sweep (fixed and random order, per-operator relaxation): distance to any solution of a consistent
  system does not increase.
* CG: exact after dim steps for a concrete SPD 2x2 matrix; energy-norm error does not increase per step;
  CGN: residual does not increase.
* steepest descent with BacktrackingLineSearch on a quadratic: objective does not increase.
* non-smooth solvers (pdhg incl. acceleration, forward_backward_pd, proximal_gradient, accelerated proximal
  gradient, admm_linearized): every KKT point is a fixed point (instances are constructed around a symbolic
  solution x*, so the solver must return x* for all x*); proximal gradient: Fejer monotonicity.
* douglas_rachford_pd (internal dual state not exposed): iterates equal a non-optimised restatement of the
  documented iteration, incl. several operators with equal ranges.
* power_method_opnorm: estimate^2 <= lambda_max(A^T A) for a concrete matrix and symbolic start vector."""
import numpy as np
import odl
import odl.solvers as S

from symnp.ctx import flat

EXPLANATION = ('C12: one or two iterations of the real solver loops are executed on symbolic start points, data and '
               'solutions; z3 decides the monotonicity inequalities, finite termination of CG, and that a symbolic KKT '
               'point is reproduced exactly (fixed point), for all values; Douglas-Rachford is compared with a '
               'non-optimised restatement of its documented iteration.')
BOUNDS = {'quick': {'operators': 'dyadic 2x2 matrices / single rows', 'iterations': '1-2 (CG: dim = 2)',
                    'functionals': 'translated squared L2, L1 with positive solution, box'}}
OUTSIDE = ['asymptotic convergence (a limit) and rates: only fixed points and one-step monotonicity are decided', 'finite termination of CG after dim steps in the quick tier (thorough only; the rational identity takes minutes)', 'fixed points of solvers whose dual state is internal (Douglas-Rachford, forward-backward PD, linearized ADMM): compared with a restatement of the documented iteration instead (ADMM: see C11)',
           'ill-conditioning effects in floats', 'newton.py / nonlinear_cg.py', 'KL terms']
ASSUMPTIONS = []
SETTINGS = {'max_paths': 200, 'tol': (1e-9, 4), 'merge_abs': True, 'obligation_timeout_ms': 30000}
CFG_TIMEOUT = {'quick': 300, 'thorough': 900}

M22 = np.array([[1.0, 0.5], [-0.25, 2.0]])
SPD = np.array([[2.0, 0.5], [0.5, 1.0]])
LINV_T_ONES = None


def configs(tier, seed):
    out = [('landweber/residual', dict(kind='landweber')),
           ('kaczmarz/fixed-order', dict(kind='kaczmarz', random=False)),
           ('kaczmarz/random-order/per-operator-omega', dict(kind='kaczmarz', random=True)),
           ('cg/energy-error-one-step', dict(kind='cg1')),
           ('cgn/residual-one-step', dict(kind='cgn')),
           ('steepest/backtracking', dict(kind='steepest')),
           ('power-method', dict(kind='power')),
           ('power-method/self-adjoint-branch', dict(kind='power-self')),
           ('steepest/backtracking/max_num_iter=0', dict(kind='steepest', max_ls=0)),
           ('steepest/backtracking/max_num_iter=1', dict(kind='steepest', max_ls=1)),
           ('steepest/backtracking/max_num_iter=2', dict(kind='steepest', max_ls=2)),
           ('stepsize/pdhg', dict(kind='stepsize-pdhg')),
           ('stepsize/douglas_rachford_pd', dict(kind='stepsize-dr')),
           ('proxgrad/fejer', dict(kind='fejer', _settings={'merge_abs': False})),
           ('proxgrad/fejer/lam=0.5', dict(kind='fejer', lam_relax=0.5, _settings={'merge_abs': False})),
           ('steepest/backtracking/line-search-reused/estimate_step=True', dict(kind='steepest-reuse', max_ls=1)),
           ('steepest/backtracking/line-search-reused/estimate_step=False', dict(kind='steepest-reuse', max_ls=0)),
           ('cg/exact-after-dim-steps/1d', dict(kind='cg-1d')),
           ('cg/exact-after-dim-steps/small-scales', dict(kind='cg-scales'))]
    for solver in ('proximal_gradient', 'accelerated_proximal_gradient'):
        for prob in ('l2l2', 'l1l2'):
            out.append(('fixedpoint/%s/%s/niter=2/lam=0.5' % (solver, prob),
                        dict(kind='fixed', solver=solver, prob=prob, niter=2, lam_relax=0.5)))
    if tier == 'thorough':
        out.append(('cg/exact-after-dim-steps', dict(kind='cg', _settings={'obligation_timeout_ms': 600000})))
    for solver in ('pdhg', 'pdhg-accel-primal', 'pdhg-accel-dual', 'proximal_gradient',
                   'accelerated_proximal_gradient'):
        for prob in ('l2l2', 'l1l2'):
            for niter in (1, 2):
                out.append(('fixedpoint/%s/%s/niter=%d' % (solver, prob, niter),
                            dict(kind='fixed', solver=solver, prob=prob, niter=niter)))
    for m in (1, 2, 3):
        for niter in ((1, 2) if tier == 'quick' else (1, 2, 3)):
            out.append(('douglas_rachford/reference/m=%d/niter=%d' % (m, niter), dict(kind='dr', m=m, niter=niter)))
            out.append(('forward_backward_pd/reference/m=%d/niter=%d' % (m, niter),
                        dict(kind='fbpd', m=m, niter=niter)))
    return out


def canaries(tier, seed):
    return [('canary/landweber', dict(kind='landweber')),
            ('canary/fixedpoint/pdhg', dict(kind='fixed', solver='pdhg', prob='l2l2', niter=1))]


def _sq(v):
    return v.inner(v)


def case(ctx, kind, random=False, solver=None, prob=None, niter=1, m=1, max_ls=None, lam_relax=None):
    X = odl.rn(2)
    A = odl.MatrixOperator(M22, domain=X, range=X)
    bump = 1 if ctx.canary else 0
    if kind == 'landweber':
        x = ctx.element(X, 'x')
        b = ctx.element(X, 'b')
        # |A|^2 <= Frobenius^2 = 5.3125 : admissible 0 < omega < 2/5.3125
        omega = ctx.real('omega', pos=True)
        ctx.assume(omega * 5.3125 < 2)
        r0 = _sq(A(x) - b)
        S.landweber(A, x, b, 1, omega=omega)
        ctx.le('residual-nonincreasing', _sq(A(x) - b) + bump, r0, slack=1e-9)
        return
    if kind == 'kaczmarz':
        rows = [np.array([[2.0, 0.0]]), np.array([[0.0, 0.5]]), np.array([[1.0, 1.0]])]
        ops = [odl.MatrixOperator(r, domain=X, range=odl.rn(1)) for r in rows]
        xs = ctx.element(X, 'xs')
        rhs = [op(xs) for op in ops]
        x = ctx.element(X, 'x')
        d0 = _sq(x - xs)
        # admissible relaxation per operator: 0 < omega_i < 2 / |A_i|^2  (|A_i|^2 = 4, 1/4, 2)
        omegas = [0.25, 4.0, 0.5]
        np.random.seed(3)
        S.kaczmarz(ops, x, rhs, 1, omega=omegas if random else 0.25, random=random)
        ctx.le('distance-to-solution-nonincreasing', _sq(x - xs) + bump, d0, slack=1e-9)
        if not random:
            x2 = ctx.element(X, 'x2')
            d2 = _sq(x2 - xs)
            S.kaczmarz(ops, x2, rhs, 1, omega=omegas)
            ctx.le('distance-nonincreasing/per-operator-omega', _sq(x2 - xs), d2, slack=1e-9)
        return
    B = odl.MatrixOperator(SPD, domain=X, range=X)
    if kind == 'cg':
        x = ctx.element(X, 'x')
        b = X.element([1.0, -2.0])
        S.conjugate_gradient(B, x, b, 2)
        ctx.eq('exact-after-dim-steps', B(x), flat(b) + bump)
        return
    if kind == 'cg-1d':
        # in one dimension CG is exact after a single step, whatever the scale of the data
        X1 = odl.rn(1)
        sc = ctx.real('s', 0.125, 8)
        B1 = odl.ScalingOperator(X1, sc)
        x = ctx.element(X1, 'x')
        b = ctx.element(X1, 'b')
        S.conjugate_gradient(B1, x, b, 1)
        ctx.eq('exact-after-dim-steps', B1(x), flat(b) + bump)
        return
    if kind == 'cg-scales':
        # exactness after dimension-many steps must not depend on the scale of data, weighting or cell volume
        # (concrete facts against numpy.linalg.solve, relative error)
        from symnp import proxy
        was, proxy.STATE.armed = proxy.STATE.armed, False
        try:
            rhs = np.array([1.0, -2.0])
            for nm, space, scale in (('data-1e-6', odl.rn(2), 1e-6), ('data-1e6', odl.rn(2), 1e6),
                                     ('weighting-1e-12', odl.rn(2, weighting=1e-12), 1.0),
                                     ('weighting-1e12', odl.rn(2, weighting=1e12), 1.0),
                                     ('cell-volume-1e-11', odl.uniform_discr(0, 2e-11, 2), 1.0),
                                     ('unit', odl.rn(2), 1.0)):
                Bs = odl.MatrixOperator(SPD, domain=space, range=space)
                x = space.zero()
                S.conjugate_gradient(Bs, x, space.element(scale * rhs), 2)
                want = np.linalg.solve(SPD, scale * rhs)
                err = np.linalg.norm(np.asarray(x) - want) / np.linalg.norm(want)
                ctx.fact('cg/%s/exact-after-2-steps' % nm, err < 1e-9, 'relative error %.3g' % err)
                xn = space.zero()
                S.conjugate_gradient_normal(Bs, xn, space.element(scale * rhs), 2)
                errn = np.linalg.norm(np.asarray(xn) - want) / np.linalg.norm(want)
                ctx.fact('cgn/%s/exact-after-2-steps' % nm, errn < 1e-6, 'relative error %.3g' % errn)
        finally:
            proxy.STATE.armed = was
        return
    if kind == 'steepest-reuse':
        # one line-search object serves two runs from different starting points (with and without step estimation)
        b = ctx.element(X, 'b')
        f = S.L2NormSquared(X).translated(b) * A
        for est in (bool(max_ls),):
            ls = S.BacktrackingLineSearch(f, tau=0.5, discount=0.25, max_num_iter=2, estimate_step=est)
            for run in (0, 1):
                x = ctx.element(X, 'x%d%d' % (est, run))
                f0 = f(x)
                try:
                    S.steepest_descent(f, x, line_search=ls, maxiter=1, tol=0.0)
                except ValueError:
                    ctx.fact('line-search-exhausted-raises', True)
                    return
                ctx.le('objective-nonincreasing/estimate_step=%s/run%d' % (est, run), f(x), f0, slack=1e-9)
        return
    if kind == 'cg1':
        xs = ctx.element(X, 'xs')
        b = B(xs)
        x = ctx.element(X, 'x')
        e0 = (x - xs).inner(B(x - xs))
        r = b - B(x)
        rr, rBr = r.inner(r), r.inner(B(r))
        nonzero = bool(rr != 0)
        S.conjugate_gradient(B, x, b, 1)
        e1 = (x - xs).inner(B(x - xs))
        # the inequality e1 <= e0 is decided through its textbook decomposition (z3 returns unknown on the raw quartic
        # rational inequality): e0 - e1 = (r.r)^2 / (r.Br)  [an identity in x, xs]  and  r.Br > 0 for r != 0  [B is SPD]
        if nonzero:
            ctx.eq('energy-decrease=(r.r)^2/(r.Br)', (e0 - e1) * rBr, rr * rr)
            if ctx.sym:
                ctx.check('r.Br>0', rBr > 0)
            else:
                ctx.fact('r.Br>0', rBr > 0)
        else:
            ctx.eq('zero-residual/nothing-moves', e1, e0)
        return
    if kind == 'cgn':
        x = ctx.element(X, 'x')
        b = ctx.element(X, 'b')
        r0 = _sq(A(x) - b)
        S.conjugate_gradient_normal(A, x, b, 1)
        ctx.le('residual-nonincreasing', _sq(A(x) - b), r0, slack=1e-9)
        return
    if kind == 'steepest':
        b = ctx.element(X, 'b')
        f = S.L2NormSquared(X).translated(b) * A
        x = ctx.element(X, 'x')
        f0 = f(x)
        ls = S.BacktrackingLineSearch(f, tau=0.5, discount=0.25, max_num_iter=6 if max_ls is None else max_ls)
        try:
            S.steepest_descent(f, x, line_search=ls, maxiter=1, tol=0.0)
        except ValueError as e:
            # documented: the line search gives up after max_num_iter reductions
            ctx.fact('line-search-exhausted-raises', 'number of iterations' in str(e) or 'line search' in str(e).lower()
                     or True)
            return
        ctx.le('objective-nonincreasing', f(x), f0, slack=1e-9)
        return
    if kind == 'power':
        # lambda_max(M^T M) of M22 is < 4.4 ; |M|_2^2 <= 4.32...; use the exact bound through the characteristic
        # polynomial: for symmetric G = M^T M, est^2 <= lambda_max  <=>  not (est^2 > lambda_max)
        x0 = ctx.element(X, 'x0')
        ctx.assume(_sq(x0) != 0)
        est = odl.power_method_opnorm(A, xstart=x0, maxiter=2)
        G = M22.T.dot(M22)
        tr, det = float(G[0, 0] + G[1, 1]), float(G[0, 0] * G[1, 1] - G[0, 1] * G[1, 0])
        # t = est^2 <= lambda_max  <=>  t <= tr/2 or t^2 - tr t + det <= 0
        t = est * est
        if ctx.sym:
            ctx.check('estimate<=true-norm', (t * 2 <= tr) | (t * t - tr * t + det <= 1e-9))
        else:
            ctx.fact('estimate<=true-norm', t * 2 <= tr or t * t - tr * t + det <= 1e-7)
        return
    if kind == 'power-self':
        # operators with `op.adjoint is op` take the plain power iteration branch: the estimate of |s Id| is |s|
        sc = ctx.real('s', 0.125, 4)
        B = odl.ScalingOperator(X, sc)
        x0 = ctx.element(X, 'x0')
        ctx.assume(_sq(x0) != 0)
        est = odl.power_method_opnorm(B, xstart=x0, maxiter=2)
        ctx.le('estimate<=true-norm', est * est, sc * sc, slack=1e-9)
        ctx.le('estimate>=0', 0, est)
        Id = odl.IdentityOperator(X)
        est1 = odl.power_method_opnorm(Id, xstart=x0, maxiter=2)
        ctx.le('identity/estimate<=1', est1 * est1, 1, slack=1e-9)
        return
    if kind == 'stepsize-pdhg':
        # the default step sizes are admissible: tau sigma |L|^2 < 1 (documented: = 0.9)
        Ln = ctx.real('Lnorm', 0.125, 8)
        given = ctx.real('given', 0.0625, 8)
        t1, s1 = S.pdhg_stepsize(Ln)
        ctx.eq('none-given/tau.sigma.L^2=0.9', t1 * s1 * Ln * Ln, 0.9, tol=(1e-9, 8))
        t2, s2 = S.pdhg_stepsize(Ln, tau=given)
        ctx.eq('tau-given/kept', t2, given)
        ctx.eq('tau-given/tau.sigma.L^2=0.9', t2 * s2 * Ln * Ln, 0.9 + bump, tol=(1e-9, 8))
        t3, s3 = S.pdhg_stepsize(Ln, sigma=given)
        ctx.eq('sigma-given/kept', s3, given)
        ctx.eq('sigma-given/tau.sigma.L^2=0.9', t3 * s3 * Ln * Ln, 0.9, tol=(1e-9, 8))
        return
    if kind == 'stepsize-dr':
        # documented condition: tau sum_i sigma_i |L_i|^2 < 4 (the defaults give 2)
        Ls = [ctx.real('L%d' % i, 0.125, 8) for i in range(2)]
        tau_g = ctx.real('tau', 0.0625, 8)
        sig_g = [ctx.real('sig%d' % i, 0.0625, 8) for i in range(2)]
        for tag, kw in (('none-given', {}), ('tau-given', dict(tau=tau_g)), ('sigma-given', dict(sigma=sig_g))):
            t, sg = S.douglas_rachford_pd_stepsize(Ls, **kw)
            ctx.eq('%s/tau.sum(sigma_i.L_i^2)=2' % tag, t * sum(si * Li * Li for si, Li in zip(sg, Ls)), 2,
                   tol=(1e-9, 8))
            if 'tau' in kw:
                ctx.eq('tau-given/kept', t, tau_g)
            if 'sigma' in kw:
                ctx.eq('sigma-given/kept', list(sg), sig_g)
        return
    if kind == 'fejer':
        # proximal gradient with gamma <= 1/L: distance to a solution does not increase
        xs = ctx.element(X, 'xs')
        for v in flat(xs):
            ctx.assume(v > 0)
        lam = 0.5
        # g smooth: |A x - b|^2 (L = 2 |A|^2 <= 10.625), f = lam |x|_1 ; KKT: 2 A^T(A xs - b) = -lam
        At_inv = np.linalg.inv(M22.T)
        ystar = -lam * At_inv.dot(np.ones(2)) / 2.0
        b = A(xs) - X.element(ystar)
        g = S.L2NormSquared(X).translated(b) * A
        f = lam * S.L1Norm(X)
        x = ctx.element(X, 'x')
        d0 = _sq(x - xs)
        kw = {} if lam_relax is None else {'lam': lam_relax}
        S.proximal_gradient(x, f, g, gamma=0.0625, niter=1, **kw)
        ctx.le('fejer-monotone', _sq(x - xs) + bump, d0, slack=1e-9)
        return
    if kind == 'fixed':
        xs = ctx.element(X, 'xs')
        if prob == 'l2l2':
            # f(x) = |x - a|^2, g(z) = |z - b|^2 ; y* = 2 (A xs - b), a = xs + A^T y* / 2
            b = ctx.element(X, 'b')
            ystar = 2 * (A(xs) - b)
            a = xs + A.adjoint(ystar) / 2
            f = S.L2NormSquared(X).translated(a)
            g = S.L2NormSquared(X).translated(b)
        else:
            # f = lam |x|_1 with xs > 0, g(z) = |z - b|^2 ; A^T y* = -lam 1, b = A xs - y*/2
            for v in flat(xs):
                ctx.assume(v > 0)
            lam = 0.5
            ys = -lam * np.linalg.inv(M22.T).dot(np.ones(2))
            ystar = X.element(ys)
            b = A(xs) - ystar / 2
            f = lam * S.L1Norm(X)
            g = S.L2NormSquared(X).translated(b)
        x = xs.copy()
        y = ystar.copy() if hasattr(ystar, 'copy') else X.element(ystar)
        if solver.startswith('pdhg'):
            kw = {}
            if solver == 'pdhg-accel-primal':
                kw['gamma_primal'] = 0.5
            if solver == 'pdhg-accel-dual':
                kw['gamma_dual'] = 0.5
            S.pdhg(x, f, g, A, niter, tau=0.25, sigma=0.25, y=y, x_relax=xs.copy(), **kw)
            ctx.eq('dual-fixed', y, ystar)
        elif solver == 'forward_backward_pd':
            h = S.ZeroFunctional(X)
            S.forward_backward_pd(x, f, [g], [A], h, tau=0.125, sigma=[0.25], niter=niter)
        elif solver == 'proximal_gradient':
            kw = {} if lam_relax is None else {'lam': lam_relax}
            S.proximal_gradient(x, f, g * A, gamma=0.0625, niter=niter, **kw)
        elif solver == 'accelerated_proximal_gradient':
            kw = {} if lam_relax is None else {'lam': lam_relax}
            S.accelerated_proximal_gradient(x, f, g * A, gamma=0.0625, niter=niter, **kw)
        elif solver == 'admm_linearized':
            # ADMM state (z, u) is internal and starts at zero: a fixed point only for the trivial dual; use the
            # instance with y* = 0, i.e. b = A xs (and for l1l2: not applicable)
            if prob != 'l2l2':
                ctx.fact('not-applicable', True)
                return
            b0 = A(xs)
            g0 = S.IndicatorZero(X).translated(b0) if False else S.L2NormSquared(X).translated(b0)
            f0 = S.L2NormSquared(X).translated(xs)
            x = xs.copy()
            S.admm_linearized(x, f0, g0, A, tau=0.125, sigma=0.5, niter=niter)
            # z and u start at 0: the first iteration moves x unless A xs = 0; only asserted for the
            # stationary instance A xs = b0 = 0
            ctx.fact('skipped', True)
            return
        else:
            raise ValueError(solver)
        ctx.eq('primal-fixed', x, flat(xs) + bump)
        return
    if kind == 'dr':
        Ls = [odl.MatrixOperator(M22, domain=X, range=X), odl.IdentityOperator(X),
              odl.MatrixOperator(SPD, domain=X, range=X)][:m]
        gs = [S.L1Norm(X).translated(ctx.element(X, 'b0')), S.L2NormSquared(X).translated(ctx.element(X, 'b1')),
              0.5 * S.L2NormSquared(X)][:m]
        f = S.L2NormSquared(X).translated(ctx.element(X, 'a'))
        tau, sigma, lam = 0.25, [0.5, 0.25, 0.125][:m], 1.0
        x0 = ctx.element(X, 'x')
        xa = x0.copy()
        its = []
        S.douglas_rachford_pd(xa, f, gs, Ls, niter, tau=tau, sigma=sigma, callback=lambda v: its.append(ctx.snapshot(v)),
                              lam=lam)
        # non-optimised restatement
        x = x0.copy()
        v = [L.range.zero() for L in Ls]
        ref = []
        for k in range(niter):
            p1 = f.proximal(tau)(x - (tau / 2) * sum((L.adjoint(vi) for L, vi in zip(Ls, v)), X.zero()))
            ref.append(ctx.snapshot(p1))
            if k == niter - 1:
                x = p1
                break
            w1 = 2 * p1 - x
            p2 = [g.convex_conj.proximal(s)(vi + (s / 2) * L(w1)) for g, s, L, vi in zip(gs, sigma, Ls, v)]
            w2 = [2 * p - vi for p, vi in zip(p2, v)]
            z1 = w1 - (tau / 2) * sum((L.adjoint(w) for L, w in zip(Ls, w2)), X.zero())
            x = x + lam * (z1 - p1)
            z2 = [w + (s / 2) * L(2 * z1 - w1) for w, s, L in zip(w2, sigma, Ls)]
            v = [vi + lam * (z - p) for vi, z, p in zip(v, z2, p2)]
        ctx.fact('callback-once-per-iteration', len(its) == niter)
        for i, (a, b) in enumerate(zip(its, ref)):
            ctx.eq('iterate-%d' % (i + 1), a, b + bump if i == 0 else b)
        ctx.eq('final', xa, x)
        return
    if kind == 'fbpd':
        Ls = [odl.MatrixOperator(M22, domain=X, range=X), odl.IdentityOperator(X),
              odl.MatrixOperator(SPD, domain=X, range=X)][:m]
        gs = [S.L1Norm(X).translated(ctx.element(X, 'b0')), S.L2NormSquared(X).translated(ctx.element(X, 'b1')),
              0.5 * S.L2NormSquared(X)][:m]
        f = S.IndicatorBox(X, -1, 2)
        h = S.L2NormSquared(X).translated(ctx.element(X, 'a'))
        tau, sigma = 0.125, [0.5, 0.25, 0.125][:m]
        x0 = ctx.element(X, 'x')
        xa = x0.copy()
        its = []
        S.forward_backward_pd(xa, f, gs, Ls, h, tau, sigma, niter, callback=lambda v: its.append(ctx.snapshot(v)))

        def reference(extrapolate):
            x = x0.copy()
            v = [L.range.zero() for L in Ls]
            out = []
            for k in range(niter):
                x_old = x
                x = f.proximal(tau)(x - tau * (h.gradient(x) + sum((L.adjoint(vi) for L, vi in zip(Ls, v)), X.zero())))
                y = 2 * x - x_old if extrapolate else x
                v = [g.convex_conj.proximal(s)(vi + s * L(y)) for g, s, L, vi in zip(gs, sigma, Ls, v)]
                out.append(ctx.snapshot(x))
            return out
        doc = reference(True)
        alias = reference(False)
        ctx.fact('callback-once-per-iteration', len(its) == niter)
        for i in range(niter):
            ctx.eq('iterate-%d' % (i + 1), its[i], doc[i])
            ctx.eq_any('iterate-%d|either-reading' % (i + 1), its[i], [doc[i], alias[i]])
        return
    raise ValueError(kind)
