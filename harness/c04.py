"""C04 — operator arithmetic means what the algebra table says, for arbitrary expressions.

Leaves are *uninterpreted*: UFOp (declared nonlinear; entries A_i(x_1..x_n) with A_i an uninterpreted
function), SymLin (declared linear; symbolic matrix), UFFunctional / LinFunctional; plus library leaves.
Expression trees over + - unary- * @ / **, scalar and vector left/right multiplication, operator+vector,
operator+scalar are built with the real overloads of Operator / Functional and evaluated by the real
expression classes (out-of-place, in-place, in-place aliased); the oracle is a reference interpreter of
the documented table over solver terms."""
import random

import numpy as np
import odl
from odl.solvers.functional.functional import Functional

from symnp.ctx import flat

EXPLANATION = ('C04: expression trees over uninterpreted operator/functional leaves are built with the real operator '
               'overloads and evaluated by the real expression classes on symbolic points, scalars and vectors; the '
               'result must equal the reference interpreter of the documented algebra table for every leaf behaviour '
               '(decided modulo congruence of the uninterpreted leaf functions), and domain/range/linearity flags '
               'must be those implied by the expression.')
BOUNDS = {'quick': {'trees': 'all trees of depth <= 1 and a seeded sample of 260 trees of depth 2 over 3 operator '
                    'leaves; functional family: all depth <= 1 + 120 seeded depth 2', 'space': 'rn(2), cn(2)',
                    'evaluation': 'out-of-place, in-place, in-place with out aliased to x'},
          'thorough': {'trees': 'seeded sample of 3000 depth-2 trees + 600 depth-3 trees; functional family 1000'}}
OUTSIDE = ['depth > 3', 'operators between different spaces beyond X->X, X->R']
ASSUMPTIONS = ['leaf operators are deterministic functions of their argument (uninterpreted)']
SETTINGS = {'max_paths': 64, 'tol': None, 'obligation_timeout_ms': 15000}
CFG_TIMEOUT = {'quick': 180, 'thorough': 900}


# ------------------------------------------------------------------ leaves
class UFOp(odl.Operator):
    """Nonlinear leaf with uninterpreted behaviour; implemented out-of-place or in-place."""

    def __init__(self, ctx, name, space, inplace=False):
        super(UFOp, self).__init__(space, space, linear=False)
        n = space.size * (2 if space.is_complex else 1)
        self.fs = [ctx.uf('%s%d' % (name, i), n) for i in range(n)]
        self.cplx = space.is_complex
        self.inplace = inplace
        self._call_in_place = self._inplace_impl if inplace else self._call_in_place

    def values(self, entries):
        """reference semantics on a flat list of entries"""
        args = []
        for e in entries:
            if self.cplx:
                args += [e.real, e.imag]
            else:
                args.append(e)
        vals = [f(*args) for f in self.fs]
        if self.cplx:
            return [_mk_complex(vals[2 * i], vals[2 * i + 1]) for i in range(len(vals) // 2)]
        return vals

    def _call(self, x):
        return self.range.element(_as_array(self.values(list(flat(x))), self.cplx))


def _mk_complex(re, im):
    from symnp.scalars import SC, is_symscalar
    if is_symscalar(re) or is_symscalar(im):
        return SC(re, im)
    return complex(re, im)


def _as_array(vals, cplx):
    from symnp.scalars import is_symscalar
    from symnp.sarray import wrap
    if any(is_symscalar(v) for v in vals):
        a = np.empty(len(vals), dtype=object)
        for i, v in enumerate(vals):
            a[i] = v
        return wrap(a, np.dtype('complex128' if cplx else 'float64'))
    return np.array(vals, dtype=complex if cplx else float)


class UFOpInPlace(UFOp):
    """Same behaviour, implemented in place only (reads x completely before writing)."""

    def _call(self, x, out):
        vals = self.values(list(flat(x)))
        out[:] = _as_array(vals, self.cplx)


class UFOpInPlaceSeq(UFOp):
    """Same behaviour, implemented in place only and NOT alias-safe: the entries of out are written one after
    the other and x is read again for each (like a finite-difference loop).  Correct wrappers never hand such an
    operator an ``out`` that aliases its input unless the caller did."""

    def _call(self, x, out):
        for i in range(self.domain.size):
            vals = self.values(list(flat(x)))
            out[i] = vals[i]


class UFFunc(Functional):
    def __init__(self, ctx, name, space, linear=False, w=None):
        super(UFFunc, self).__init__(space, linear=linear)
        self.f = ctx.uf(name, space.size)
        self.w = w

    def value(self, entries):
        if self.w is not None:
            return sum(a * b for a, b in zip(self.w, entries))
        return self.f(*entries)

    def _call(self, x):
        return self.value(list(flat(x)))


# ------------------------------------------------------------- tree algebra
OP_LEAVES = ('A', 'B', 'L')
UNARY = ('neg', 'lsc', 'rsc', 'lvec', 'rvec', 'vsum', 'ssum', 'div', 'pow2', 'rsub_v',
         'lsc@', 'rsc@', 'lvec@', 'rvec@', 'radd_v', 'rsub_s')
BINARY = ('sum', 'diff', 'comp', 'matmul')


def gen_trees(depth, leaves, unary, binary):
    if depth == 0:
        return [(l,) for l in leaves]
    sub = gen_trees(depth - 1, leaves, unary, binary)
    out = list(sub)
    for u in unary:
        out += [(u, t) for t in sub]
    for b in binary:
        out += [(b, s, t) for s in sub for t in sub]
    return list(dict.fromkeys(out))


def tstr(t):
    return t[0] if len(t) == 1 else '%s(%s)' % (t[0], ','.join(tstr(s) for s in t[1:]))


def tolist(t):
    return [t[0]] + [tolist(s) for s in t[1:]]


def totuple(l):
    return tuple([l[0]] + [totuple(s) for s in l[1:]])


def build(t, env):
    """The real ODL expression object."""
    k = t[0]
    if len(t) == 1:
        return env[k]
    a = build(t[1], env)
    s, v = env['s'], env['v']
    if k == 'neg':
        return -a
    if k == 'lsc':
        return s * a
    if k == 'rsc':
        return a * s
    if k == 'lvec':
        return v * a
    if k == 'rvec':
        return a * v
    if k == 'lsc@':
        return s @ a
    if k == 'rsc@':
        return a @ s
    if k == 'lvec@':
        return v @ a
    if k == 'rvec@':
        return a @ v
    if k == 'radd_v':
        return v + a
    if k == 'rsub_s':
        return s - a
    if k == 'vsum':
        return a + v
    if k == 'rsub_v':
        return v - a
    if k == 'ssum':
        return a + s
    if k == 'div':
        return a / s
    if k.startswith('pow'):
        return a ** int(k[3:])
    b = build(t[2], env)
    if k == 'sum':
        return a + b
    if k == 'diff':
        return a - b
    if k == 'comp':
        return a * b
    if k == 'matmul':
        return a @ b
    raise ValueError(k)


def ref_eval(t, env, x):
    """Reference interpreter of the documented table; x and result are flat lists of entries
    (a bare scalar for functional-valued expressions)."""
    k = t[0]
    s, v = env['s'], env['vlist']
    if len(t) == 1:
        return env['sem'][k](x)
    k = {'lsc@': 'lsc', 'rsc@': 'rsc', 'lvec@': 'lvec', 'rvec@': 'rvec', 'radd_v': 'vsum'}.get(k, k)
    if k == 'rsub_s':
        return _map(lambda e: s - e, ref_eval(t[1], env, x))
    if k == 'neg':
        return _map(lambda e: -e, ref_eval(t[1], env, x))
    if k == 'lsc':
        return _map(lambda e: s * e, ref_eval(t[1], env, x))
    if k == 'rsc':
        return ref_eval(t[1], env, [s * e for e in x])
    if k == 'lvec':
        r = ref_eval(t[1], env, x)
        if not isinstance(r, list):          # v * functional: operator into v's space
            return [w * r for w in v]
        return [w * e for w, e in zip(v, r)]
    if k == 'rvec':
        return ref_eval(t[1], env, [w * e for w, e in zip(v, x)])
    if k == 'vsum':
        return [e + w for e, w in zip(ref_eval(t[1], env, x), v)]
    if k == 'rsub_v':
        return [w - e for e, w in zip(ref_eval(t[1], env, x), v)]
    if k == 'ssum':
        return _map(lambda e: e + s, ref_eval(t[1], env, x))
    if k == 'div':
        inv = 1 / s          # documented rewriting E / a = E * (1 / a)
        return ref_eval(t[1], env, [inv * e for e in x])
    if k.startswith('pow'):                  # A ** n: n-fold composition
        r = x
        for _ in range(int(k[3:])):
            r = ref_eval(t[1], env, r)
        return r
    if k in ('sum', 'diff'):
        a, b = ref_eval(t[1], env, x), ref_eval(t[2], env, x)
        if isinstance(a, list):
            return [p + q if k == 'sum' else p - q for p, q in zip(a, b)]
        return a + b if k == 'sum' else a - b
    if k in ('comp', 'matmul'):
        return ref_eval(t[1], env, ref_eval(t[2], env, x))
    raise ValueError(k)


def _map(f, r):
    return [f(e) for e in r] if isinstance(r, list) else f(r)


def expected_linear(t, lin):
    k = t[0]
    if len(t) == 1:
        return lin[k]
    if k in ('vsum', 'ssum', 'rsub_v', 'radd_v', 'rsub_s'):
        return False
    if k in ('neg', 'lsc', 'rsc', 'lvec', 'rvec', 'div', 'lsc@', 'rsc@', 'lvec@', 'rvec@') or k.startswith('pow'):
        return expected_linear(t[1], lin)
    return expected_linear(t[1], lin) and expected_linear(t[2], lin)


def is_functional_valued(t, fleaves):
    k = t[0]
    if len(t) == 1:
        return k in fleaves
    if k in ('lvec', 'lvec@'):
        return False
    if k in ('comp', 'matmul'):
        return is_functional_valued(t[1], fleaves)
    return is_functional_valued(t[1], fleaves)


def well_typed(t, fleaves):
    """Functional family typing: X->R leaves f,g,l ; X->X leaves A,L."""
    k = t[0]
    if len(t) == 1:
        return True
    if not all(well_typed(s, fleaves) for s in t[1:]):
        return False
    fa = is_functional_valued(t[1], fleaves)
    if k in ('sum', 'diff'):
        return fa == is_functional_valued(t[2], fleaves)
    if k in ('comp', 'matmul'):
        return not is_functional_valued(t[2], fleaves)       # inner must map X->X
    if k in ('vsum', 'rsub_v', 'radd_v') or k.startswith('pow'):
        return not fa
    return True


# ----------------------------------------------------------------- configs
def configs(tier, seed):
    rnd = random.Random(seed)
    out = []
    d1 = [t for t in gen_trees(1, OP_LEAVES, UNARY, BINARY) if len(t) > 1]
    d2 = [t for t in gen_trees(2, OP_LEAVES, UNARY, BINARY) if t not in set(d1) and len(t) > 1]
    sel = d1 + rnd.sample(d2, 260 if tier == 'quick' else 3000)
    if tier == 'thorough':
        d3pool = []
        for _ in range(600):
            d3pool.append(_random_tree(rnd, 3, OP_LEAVES, UNARY, BINARY))
        sel += d3pool
    chunk = 3
    for field in ('real', 'complex'):
        ts = sel if field == 'real' else sel[:len(d1) + 40]
        for i in range(0, len(ts), chunk):
            out.append(('optree/%s/%04d' % (field, i // chunk),
                        dict(kind='op', field=field, trees=[tolist(t) for t in ts[i:i + chunk]])))
    # iterated composition A ** n for every n up to 11 (the implementation may use any multiplication scheme)
    for n in (1, 3, 4, 5, 6, 7, 8, 9, 10, 11) if tier == 'quick' else range(1, 17):
        out.append(('optree/real/pow/%d' % n, dict(kind='op', field='real',
                                                   trees=[['pow%d' % n, ['A']], ['pow%d' % n, ['lsc', ['L']]]])))
    # wrappers around an in-place operator that is NOT alias-safe (out is never to be aliased with the inner input)
    for i in range(0, len(d1) + 45, chunk):
        ts = (d1 + sel[len(d1):len(d1) + 45])[i:i + chunk]
        out.append(('optree/real/seq/%04d' % (i // chunk), dict(kind='op', field='real', unsafe=True,
                                                               trees=[tolist(t) for t in ts])))
    FL = ('f', 'l', 'A', 'L')
    fleaves = ('f', 'l')
    fun_unary = ('neg', 'lsc', 'rsc', 'rvec', 'ssum', 'div', 'lvec', 'lsc@', 'rsc@', 'lvec@', 'rvec@', 'rsub_s')
    f1 = [t for t in gen_trees(1, FL, fun_unary, BINARY) if len(t) > 1 and well_typed(t, fleaves)
          and _mentions(t, fleaves)]
    f2 = [t for t in gen_trees(2, FL, fun_unary, BINARY) if len(t) > 1 and well_typed(t, fleaves)
          and _mentions(t, fleaves) and t not in set(f1)]
    fsel = f1 + rnd.sample(f2, min(len(f2), 120 if tier == 'quick' else 1000))
    for i in range(0, len(fsel), chunk):
        out.append(('funtree/%04d' % (i // chunk), dict(kind='fun', trees=[tolist(t) for t in fsel[i:i + chunk]])))
    return out


def _mentions(t, names):
    if len(t) == 1:
        return t[0] in names
    return any(_mentions(s, names) for s in t[1:])


def _random_tree(rnd, depth, leaves, unary, binary):
    if depth == 0 or rnd.random() < 0.15:
        return (rnd.choice(leaves),)
    if rnd.random() < 0.5:
        return (rnd.choice(unary), _random_tree(rnd, depth - 1, leaves, unary, binary))
    return (rnd.choice(binary), _random_tree(rnd, depth - 1, leaves, unary, binary),
            _random_tree(rnd, depth - 1, leaves, unary, binary))


def canaries(tier, seed):
    return [('canary/optree', dict(kind='op', field='real', trees=[['comp', ['A'], ['lsc', ['B']]]])),
            ('canary/funtree', dict(kind='fun', trees=[['rsc', ['f']]]))]


# -------------------------------------------------------------------- case
def case(ctx, kind, trees, field='real', unsafe=False):
    sp = odl.rn(2) if field == 'real' else odl.cn(2)
    dt = 'float64' if field == 'real' else 'complex128'
    for i, tl in enumerate(trees):
        t = totuple(tl)
        tag = '%d:%s' % (i, tstr(t))
        s = ctx.cplx('s%d' % i) if field == 'complex' else ctx.real('s%d' % i)
        if _uses(t, 'div'):
            ctx.assume(s != 0)
        # a zero multiple is the (linear) zero operator and "+ 0" may be dropped: the linearity flag is
        # only asserted on paths with a nonzero scalar
        snz = bool(s != 0)
        v = ctx.element(sp, 'v%d' % i)
        M = ctx.array('L%d' % i, (2, 2), dt)
        A = UFOp(ctx, 'A%d_' % i, sp)
        B = (UFOpInPlaceSeq if unsafe else UFOpInPlace)(ctx, 'B%d_' % i, sp)
        L = odl.MatrixOperator(M, domain=sp, range=sp)
        Mrows = [[M[r, c] for c in range(2)] for r in range(2)]
        sem = {'A': A.values, 'B': B.values,
               'L': lambda x, Mrows=Mrows: [sum(Mrows[r][c] * x[c] for c in range(2)) for r in range(2)]}
        env = {'A': A, 'B': B, 'L': L, 's': s, 'v': v, 'vlist': list(flat(v)), 'sem': sem}
        lin = {'A': False, 'B': False, 'L': True, 'f': False, 'l': True}
        fun_valued = False
        if kind == 'fun':
            w = [ctx.real('w%d_%d' % (i, j)) for j in range(2)]
            f = UFFunc(ctx, 'f%d' % i, sp)
            l = UFFunc(ctx, 'l%d' % i, sp, linear=True, w=w)
            env.update({'f': f, 'l': l})
            sem.update({'f': f.value, 'l': l.value})
            fun_valued = is_functional_valued(t, ('f', 'l'))
        try:
            expr = build(t, env)
        except (TypeError, ValueError) as e:
            # the overloads refuse this combination: nothing is evaluated, nothing to compare
            ctx.fact('refused:%s/%s' % (type(e).__name__, tag), True)
            continue
        x = ctx.element(sp, 'x%d' % i)
        px = ctx.snapshot(x)
        ref = ref_eval(t, env, list(px))
        if ctx.canary:
            ref = _map(lambda e: e + 1, ref)
        # flags
        ctx.fact('domain/' + tag, expr.domain == sp)
        ctx.fact('range/' + tag, expr.range == (sp.field if fun_valued else sp),
                 'range %r' % expr.range)
        if expr.is_linear and snz:
            ctx.fact('linear-flag-sound/' + tag, expected_linear(t, lin),
                     'expression is flagged linear but contains a nonlinear operand / affine shift')
        got = expr(x)
        ctx.eq('value/' + tag, got, ref)
        ctx.eq('x-unchanged/' + tag, x, px)
        if not fun_valued:
            y = ctx.garbage(sp, 'g%d' % i)
            ret = expr(x, out=y)
            ctx.fact('returns-out/' + tag, ret is y)
            ctx.eq('value-inplace/' + tag, y, ref)
            if not unsafe:
                z = x.copy()
                expr(z, out=z)
                ctx.eq('value-aliased/' + tag, z, ref)


def _uses(t, op):
    return t[0] == op or any(_uses(s, op) for s in t[1:])
