"""C10 — proximals and solver building blocks are safe when out is aliased to the input.

Real code: every factory of odl.solvers.nonsmooth.proximal_operators with its options (data term g,
scalar / element step), the proximal of every functional recipe (harness/funcs.py) incl. derived
ones (translation, scaling, quadratic perturbation, separable sum, convex conjugate), every
operator recipe with domain == range (harness/registry.py), and an AST scan of the solver call
sites of the form op(v, out=v).  Symbolic: x, sigma, lam, g."""
import ast
import os

import numpy as np
import odl
import odl.solvers.nonsmooth.proximal_operators as P
from odl.set.sets import Field

from harness import funcs, registry as reg
from symnp.ctx import flat
from symnp.scalars import EngineGap

EXPLANATION = ('C10: P(y, out=y) on an element y holding the symbolic input must leave in y exactly the terms of the '
               'out-of-place result P(x), for all x, steps, scaling factors and data terms, on every path of the '
               'proximal code; likewise for every operator with domain == range that solvers apply in place.')
BOUNDS = {'quick': {'space_sizes': '2 entries (product spaces 2x2)', 'sigma': 'symbolic > 0 (scalar) and element-valued '
                    'where documented', 'lam': 'symbolic > 0 where exact in floats, else dyadic constants'}}
OUTSIDE = ['nuclear-norm proximals (SVD in LAPACK)', 'floating-point rounding']
ASSUMPTIONS = []
SETTINGS = {'max_paths': 400, 'tol': (1e-9, 4), 'merge_abs': True, 'obligation_timeout_ms': 30000}
CFG_TIMEOUT = {'quick': 180, 'thorough': 900}

SPACES = {
    'rn': lambda: odl.rn(2),
    'arn': lambda: odl.rn(2, weighting=[1.0, 2.0]),
    'discr': lambda: odl.uniform_discr(0, 1, 2),
    'pspace': lambda: odl.ProductSpace(odl.rn(2), 2),
}


def _g(ctx, sp, use):
    return ctx.element(sp, 'g_') if use else None


def _sigma(ctx, sp, kind):
    if kind == 'scalar':
        return ctx.real('sigma', pos=True)
    if kind == 'half':
        return 0.5
    e = ctx.element(sp, 'sig')
    for v in flat(e):
        ctx.assume(v > 0)
    return e


# factory name -> (builder(ctx, space, g?, lam), accepts g, accepts lam, element sigma ok, spaces)
FACTORIES = {
    'proximal_const_func': (lambda ctx, sp, g, lam: P.proximal_const_func(sp), False, False, False, ('rn', 'discr')),
    'proximal_box_constraint': (lambda ctx, sp, g, lam: P.proximal_box_constraint(sp, -1, 2), False, False, False,
                                ('rn', 'discr')),
    'proximal_box_constraint/element-bounds': (
        lambda ctx, sp, g, lam: P.proximal_box_constraint(sp, ctx.element(sp, 'lo'), None), False, False, False,
        ('rn',)),
    'proximal_nonnegativity': (lambda ctx, sp, g, lam: P.proximal_nonnegativity(sp), False, False, False,
                               ('rn', 'discr')),
    'proximal_l1': (lambda ctx, sp, g, lam: P.proximal_l1(sp, lam=lam, g=g), True, True, True,
                    ('rn', 'arn', 'discr', 'pspace')),
    'proximal_convex_conj_l1': (lambda ctx, sp, g, lam: P.proximal_convex_conj_l1(sp, lam=lam, g=g), True, True, True,
                                ('rn', 'discr', 'pspace')),
    'proximal_l2': (lambda ctx, sp, g, lam: P.proximal_l2(sp, lam=lam, g=g), True, True, False,
                    ('rn', 'arn', 'discr')),
    'proximal_convex_conj_l2': (lambda ctx, sp, g, lam: P.proximal_convex_conj_l2(sp, lam=lam, g=g), True, True, False,
                                ('rn', 'arn', 'discr')),
    'proximal_l2_squared': (lambda ctx, sp, g, lam: P.proximal_l2_squared(sp, lam=lam, g=g), True, True, True,
                            ('rn', 'arn', 'discr')),
    'proximal_convex_conj_l2_squared': (lambda ctx, sp, g, lam: P.proximal_convex_conj_l2_squared(sp, lam=lam, g=g),
                                        True, True, True, ('rn', 'discr')),
    'proximal_l1_l2': (lambda ctx, sp, g, lam: P.proximal_l1_l2(sp, lam=lam, g=g), True, True, False, ('pspace',)),
    'proximal_convex_conj_l1_l2': (lambda ctx, sp, g, lam: P.proximal_convex_conj_l1_l2(sp, lam=lam, g=g),
                                   True, True, False, ('pspace',)),
    'proximal_linfty': (lambda ctx, sp, g, lam: P.proximal_linfty(sp), False, False, False, ('rn',)),
    'proximal_convex_conj_linfty': (lambda ctx, sp, g, lam: P.proximal_convex_conj_linfty(sp), False, False, False,
                                    ('rn',)),
    'proximal_convex_conj_kl': (lambda ctx, sp, g, lam: P.proximal_convex_conj_kl(sp, lam=lam, g=g), True, True, False,
                                ('rn', 'discr')),
    'proximal_convex_conj_kl_cross_entropy': (
        lambda ctx, sp, g, lam: P.proximal_convex_conj_kl_cross_entropy(sp, lam=lam, g=g), True, True, False, ('rn',)),
    'proximal_huber': (lambda ctx, sp, g, lam: P.proximal_huber(sp, gamma=0.5), False, False, False,
                       ('rn', 'discr')),
}
# derived factories over a base factory
DERIVED = {
    'proximal_translation(l1)': lambda ctx, sp: P.proximal_translation(P.proximal_l1(sp), ctx.element(sp, 't')),
    'proximal_translation(l2)': lambda ctx, sp: P.proximal_translation(P.proximal_l2(sp), ctx.element(sp, 't')),
    'proximal_arg_scaling(l1,scalar)': lambda ctx, sp: P.proximal_arg_scaling(P.proximal_l1(sp), 2.0),
    'proximal_arg_scaling(l1,zero)': lambda ctx, sp: P.proximal_arg_scaling(P.proximal_l1(sp), 0),
    'proximal_arg_scaling(l2sq,element)': lambda ctx, sp: P.proximal_arg_scaling(
        P.proximal_l2_squared(sp), sp.element([2.0, -0.5])),
    'proximal_quadratic_perturbation(l1,a,u)': lambda ctx, sp: P.proximal_quadratic_perturbation(
        P.proximal_l1(sp), 0.5, ctx.element(sp, 'u')),
    'proximal_quadratic_perturbation(l1,a=0,u)': lambda ctx, sp: P.proximal_quadratic_perturbation(
        P.proximal_l1(sp), 0, ctx.element(sp, 'u')),
    'proximal_quadratic_perturbation(box,a)': lambda ctx, sp: P.proximal_quadratic_perturbation(
        P.proximal_box_constraint(sp, -1, 2), 1.5),
    'proximal_convex_conj(l1)': lambda ctx, sp: P.proximal_convex_conj(P.proximal_l1(sp)),
    'proximal_convex_conj(l2)': lambda ctx, sp: P.proximal_convex_conj(P.proximal_l2(sp)),
    'proximal_convex_conj(box)': lambda ctx, sp: P.proximal_convex_conj(P.proximal_box_constraint(sp, -1, 2)),
    'proximal_composition(l1,scaling)': lambda ctx, sp: P.proximal_composition(
        P.proximal_l1(sp), odl.ScalingOperator(sp, 2.0), 4.0),
}


# operator classes the shipped solvers apply in place to their iterates (property text: linear-combination,
# scaling, multiplication, translation and projection operators); difference operators etc. are not invoked
# aliased by any solver and finite_diff does not promise alias safety
INPLACE_CLASSES = ('Identity', 'Scaling', 'Zero', 'Multiply', 'Constant', 'Power')

# operator-arithmetic wrappers around alias-safe leaves (incl. proximals)
WRAPPERS = {
    'L+R': lambda L, R, v, a: L + R,
    'L-R': lambda L, R, v, a: L - R,
    'L*R': lambda L, R, v, a: L * R,
    'a*L': lambda L, R, v, a: a * L,
    'L*a': lambda L, R, v, a: L * a,
    'v*L': lambda L, R, v, a: v * L,
    'L*v': lambda L, R, v, a: L * v,
    'L+v': lambda L, R, v, a: L + v,
    'L/a': lambda L, R, v, a: L / a,
    '-L': lambda L, R, v, a: -L,
    'L**2': lambda L, R, v, a: L ** 2,
    'PointwiseProduct': lambda L, R, v, a: odl.OperatorPointwiseProduct(L, R),
    '(L+R)*L': lambda L, R, v, a: (L + R) * L,
    'a*(L*R)+v': lambda L, R, v, a: a * (L * R) + v,
    '(v*L)*(R*a)': lambda L, R, v, a: (v * L) * (R * a),
}


def _leaves(ctx, sp, kind):
    if kind == 'scaling+multiply':
        return odl.ScalingOperator(sp, ctx.real('s')), odl.MultiplyOperator(ctx.element(sp, 'm'))
    if kind == 'prox+scaling':
        return P.proximal_l2_squared(sp, g=ctx.element(sp, 'gg'))(0.5), odl.ScalingOperator(sp, ctx.real('s'))
    if kind == 'power+prox':
        return odl.PowerOperator(sp, 2), P.proximal_box_constraint(sp, -1, 2)(1.0)
    if kind == 'inplace-only+outofplace-only':
        return InPlaceOnly(sp, ctx.real('s')), OutOfPlaceOnly(sp, ctx.element(sp, 'm'))
    raise ValueError(kind)


LEAVES = ('scaling+multiply', 'prox+scaling', 'power+prox', 'inplace-only+outofplace-only')


class InPlaceOnly(odl.Operator):
    """x -> s*x + 1, implemented in place only (reads x entry by entry after writing: alias-safe)."""

    def __init__(self, space, s):
        super(InPlaceOnly, self).__init__(space, space, linear=False)
        self.s = s

    def _call(self, x, out):
        out.lincomb(self.s, x)
        out += 1


class OutOfPlaceOnly(odl.Operator):
    """x -> m*x, implemented out of place only."""

    def __init__(self, space, m):
        super(OutOfPlaceOnly, self).__init__(space, space, linear=True)
        self.m = m

    def _call(self, x):
        return self.m * x


ELEMENT_METHODS = ('divide', 'multiply', 'lincomb', 'assign', 'set_zero', 'copy', 'inner', 'norm', 'dist')


def _root_name(node):
    """x -> 'x';  x.lincomb(...) -> 'x' (lincomb/assign return the element itself)."""
    if isinstance(node, ast.Name):
        return node.id
    if isinstance(node, ast.Subscript):
        return ast.unparse(node)
    if isinstance(node, ast.Call) and isinstance(node.func, ast.Attribute) and \
            node.func.attr in ('lincomb', 'assign'):
        return _root_name(node.func.value)
    return None


def solver_alias_call_sites():
    """AST scan of odl/solvers (except the proximal factories' own bodies) for operator calls f(v, out=v)
    and f(v.lincomb(...), out=v) whose first argument and out are the same element."""
    import odl.solvers as S
    root = os.path.dirname(S.__file__)
    sites = []
    for dp, dn, fn in os.walk(root):
        for f in fn:
            if not f.endswith('.py') or f == 'proximal_operators.py':
                continue
            path = os.path.join(dp, f)
            try:
                tree = ast.parse(open(path).read())
            except SyntaxError:
                continue
            for node in ast.walk(tree):
                if isinstance(node, ast.Call) and node.args:
                    if isinstance(node.func, ast.Attribute) and (node.func.attr in ELEMENT_METHODS or
                                                                 'ufuncs' in ast.unparse(node.func)):
                        continue
                    for kw in node.keywords:
                        if kw.arg == 'out':
                            r0, r1 = _root_name(node.args[0]), _root_name(kw.value)
                            if r0 is not None and r0 == r1:
                                sites.append((os.path.relpath(path, root), node.lineno, ast.unparse(node.func)))
    return sites


# call-site callee expressions -> what covers them
KNOWN_SITE_CALLEES = {
    'prox_tau_f': 'admm_linearized: proximal of f, any functional (prox/*, fprox/*)',
    'prox_cc_g[i](sigma[i])': 'douglas_rachford_pd: proximal of g_i^* (prox/*convex_conj*, fprox/*)',
    'prox_cc_l[i](sigma[i])': 'douglas_rachford_pd: proximal of l_i^* (prox/*convex_conj*, fprox/*)',
    'f.proximal(gamma)': 'doubleprox_dc / prox_dca: proximal of f (fprox/*)',
    'g.proximal(gamma)': 'fprox/*', 'g.convex_conj.proximal(mu)': 'fprox/*', 'f.proximal(tau)': 'fprox/*',
    'f_prox': 'prox/*, fprox/*', 'g_prox': 'prox/*, fprox/*', 'prox_f': 'prox/*, fprox/*',
    'proximal_primal(tau)': 'pdhg: fprox/*', 'proximal_dual(sigma)': 'pdhg: fprox/*',
    'proximal_constant': 'pdhg: fprox/*', 'f.proximal(step)': 'fprox/*',
    'g_convex_conj.proximal(mu)': 'doubleprox_dc: proximal of g^* (fprox/*convex_conj*)',
    'f.proximal(gamma)': 'fprox/*', 'prox': 'prox/*, fprox/*', 'proximal': 'prox/*, fprox/*',
    'f.proximal(gamma * mu)': 'fprox/*', 'projection': 'op/*, prox/*', 'prox_sigma_g': 'prox/*, fprox/*',
}


def configs(tier, seed):
    out = []
    for name, (_, has_g, has_lam, elem_sigma, spaces) in sorted(FACTORIES.items()):
        for sk in spaces:
            for g in ((False, True) if has_g else (False,)):
                for sg in (('scalar', 'element') if elem_sigma else ('scalar',)):
                    out.append(('prox/%s/%s/g=%d/sigma=%s' % (name, sk, g, sg),
                                dict(kind='prox', factory=name, sk=sk, g=g, sigma=sg)))
    for name in sorted(DERIVED):
        out.append(('prox/%s' % name, dict(kind='derived', factory=name)))
    for cid, rn, sk in funcs.instances(tier, harness='C10'):
        out.append(('fprox/' + cid, dict(kind='fprox', recipe=rn, sk=sk)))
        if tier == 'thorough' and sk in ('rn', 'arn', 'discr', 'pspace') and funcs.supports_dim(rn, sk, 3):
            out.append(('fprox/%s/n=3' % cid, dict(kind='fprox', recipe=rn, sk=sk, n=3)))
    for r in reg.RECIPES:
        if r.name.split('/')[0] in INPLACE_CLASSES:
            out.append(('op/' + r.name, dict(kind='op', recipe=r.name)))
    for w in sorted(WRAPPERS):
        for leaves in sorted(LEAVES):
            out.append(('wrap/%s/%s' % (w, leaves), dict(kind='wrap', factory=w, sk=leaves)))
    out.append(('solver-call-sites', dict(kind='sites')))
    return out


def canaries(tier, seed):
    return [('canary/prox/l2sq', dict(kind='prox', factory='proximal_l2_squared', sk='rn', g=True, sigma='scalar')),
            ('canary/op/Scaling', dict(kind='op', recipe='Scaling/rn'))]


def aliased_equals_fresh(ctx, tag, op, x):
    pre = ctx.snapshot(x)
    try:
        ref = op(x)
    except (EngineGap, ArithmeticError):
        raise
    except Exception as e:
        # the operator is unusable for this input class at all: not an aliasing matter (C07's subject)
        ctx.fact('out-of-place-call-raises:%s/%s' % (type(e).__name__, tag), True)
        return
    r0 = ctx.snapshot(ref)
    if ctx.canary:
        r0 = r0 + 1
    ctx.eq('x-unchanged/' + tag, x, pre)
    y = x.copy()
    ret = op(y, out=y)
    ctx.fact('returns-out/' + tag, ret is y)
    ctx.eq('aliased=fresh/' + tag, y, r0)


def case(ctx, kind, factory=None, sk=None, g=False, sigma='scalar', recipe=None, n=None):
    if kind == 'sites':
        sites = solver_alias_call_sites()
        ctx.fact('found-aliased-call-sites', len(sites) > 0)
        unknown = [s for s in sites if s[2] not in KNOWN_SITE_CALLEES]
        if unknown:
            raise EngineGap('aliased solver call sites without a mapped check: %s' % unknown[:6])
        return
    if kind == 'prox':
        build, has_g, has_lam, elem_sigma, spaces = FACTORIES[factory]
        sp = SPACES[sk]()
        gg = _g(ctx, sp, g)
        if factory.startswith('proximal_convex_conj_kl') and gg is not None:
            for v in flat(gg):
                ctx.assume(v > 0)
        lam = ctx.real('lam', pos=True) if has_lam else 1
        fac = build(ctx, sp, gg, lam)
        op = fac(_sigma(ctx, sp, sigma))
        x = ctx.element(sp, 'x')
        aliased_equals_fresh(ctx, '', op, x)
        return
    if kind == 'derived':
        sp = odl.rn(2)
        op = DERIVED[factory](ctx, sp)(ctx.real('sigma', pos=True))
        x = ctx.element(sp, 'x')
        aliased_equals_fresh(ctx, '', op, x)
        return
    if kind == 'fprox':
        r, f = funcs.build(ctx, recipe, sk, n=n)
        try:
            op = f.proximal(ctx.real('sigma', pos=True))
        except (NotImplementedError, ValueError):
            # not offered / documented refusal (e.g. negative multiple of a functional)
            ctx.fact('no-proximal-offered', True)
            return
        if isinstance(op.domain, Field):
            ctx.fact('field-domain-has-no-out', True)
            return
        x = ctx.element(op.domain, 'x')
        if r.pre is not None:
            r.pre(ctx, x)
        aliased_equals_fresh(ctx, '', op, x)
        return
    if kind == 'wrap':
        sp = odl.rn(2)
        L, R = _leaves(ctx, sp, sk)
        op = WRAPPERS[factory](L, R, ctx.element(sp, 'v'), ctx.real('a', nonzero=True))
        x = ctx.element(sp, 'x')
        aliased_equals_fresh(ctx, '', op, x)
        return
    if kind == 'op':
        r = reg.by_name(recipe)
        op = r.build(ctx)
        if isinstance(op.domain, Field) or op.domain != op.range:
            ctx.fact('domain!=range:not-aliasable', True)
            return
        x = ctx.element(op.domain, 'x')
        if r.pre is not None:
            r.pre(ctx, x)
        aliased_equals_fresh(ctx, '', op, x)
        return
    raise ValueError(kind)
