"""C14 — partitions tile their domain: cells, nodes, indices and slices stay consistent.

Real code (np proxy installed in odl.discr.partition / grid, odl.set.domain): RectPartition.__init__,
cell_boundary_vecs, cell_sizes_vecs, cell_sides, boundary_cell_fractions, index, __getitem__, insert,
append, squeeze, byaxis; RectGrid / IntervalProd counterparts; uniform_partition*, nonuniform_partition.
Symbolic: domain limits, non-uniform coordinate vectors, the query point of index()."""
import itertools

import numpy as np
import odl

from symnp.ctx import flat
from symnp.scalars import is_symscalar

PROXY_EXTRA = ('odl.discr.partition', 'odl.discr.grid', 'odl.set.domain')
EXPLANATION = ('C14: partitions are built by the real factory code from symbolic limits / coordinate vectors; z3 decides '
               'the tiling invariants (boundaries strictly increasing from min to max, every node in its cell, sizes sum '
               'to the extent, cell side times count = extent for the requested node placement), that index(p) returns '
               'the containing cell and the documented fractional position for every p, that sub-partitions '
               '(slices, insert, append, squeeze, byaxis) consist of exactly the selected cells, and that the '
               'alternative specifications of a uniform partition give term-equal partitions.')
BOUNDS = {'quick': {'ndim': '1-2 (3 for insert/append)', 'axis lengths': '1..4', 'nodes_on_bdry': 'every per-side choice',
                    'index expressions': 'unit-step and strided slices, ints via squeeze, per-axis combinations'}}
OUTSIDE = ['floating-point rounding in linspace', 'ndim > 3', 'nodes closer to the domain limit than the np.isclose '
           'window but not on it (precondition: distances are 0 or larger than the window)']
ASSUMPTIONS = ['symbolic limits satisfy min < max (and coordinate vectors are strictly increasing inside [min, max])']
SETTINGS = {'max_paths': 3000, 'tol': None, 'obligation_timeout_ms': 20000}
CFG_TIMEOUT = {'quick': 240, 'thorough': 900}
NOB = [(False, False), (True, True), (True, False), (False, True)]


def configs(tier, seed):
    out = []
    for n in (1, 2, 3, 4):
        for nob in NOB:
            out.append(('uniform/1d/n=%d/nob=%s' % (n, nob), dict(kind='uniform', shape=[n], nob=[list(nob)])))
            out.append(('index/1d/n=%d/nob=%s' % (n, nob), dict(kind='index', shape=[n], nob=[list(nob)])))
            if n >= 3:
                out.append(('slices/1d/n=%d/nob=%s' % (n, nob), dict(kind='slices', shape=[n], nob=[list(nob)])))
    for shape, nob in (([2, 3], [[True, False], [False, True]]), ([3, 1], [[False, False], [True, True]]),
                       ([1, 2], [[True, True], [False, False]])):
        out.append(('uniform/2d/%dx%d/nob=%s' % (shape[0], shape[1], nob), dict(kind='uniform', shape=shape, nob=nob)))
        out.append(('slices/2d/%dx%d/nob=%s' % (shape[0], shape[1], nob), dict(kind='slices', shape=shape, nob=nob)))
        out.append(('index/2d/%dx%d/nob=%s' % (shape[0], shape[1], nob), dict(kind='index', shape=shape, nob=nob)))
    for n in (2, 3, 4):
        out.append(('nonuniform/1d/n=%d' % n, dict(kind='nonuniform', shape=[n])))
        out.append(('nonuniform-index/1d/n=%d' % n, dict(kind='nonuniform-index', shape=[n],
                                                         _settings={'max_paths': 3000})))
    out.append(('nonuniform/single-node-axis', dict(kind='nonuniform-single', shape=[3, 1])))
    out.append(('fromgrid/dict-limits', dict(kind='fromgrid-dict', shape=[3, 4])))
    out.append(('specs/1d', dict(kind='specs', shape=[3])))
    out.append(('specs/2d', dict(kind='specs', shape=[2, 3])))
    out.append(('insert-append/1d+1d', dict(kind='insert', parts=[[2], [3]])))
    out.append(('insert-append/1d+1d+1d', dict(kind='insert', parts=[[2], [1], [2]])))
    if tier == 'thorough':
        out.append(('insert-append/2d+1d+1d', dict(kind='insert', parts=[[2, 1], [2], [1]])))
        out.append(('insert-append/1d+2d+1d', dict(kind='insert', parts=[[2], [1, 2], [2]])))
    for parts in ([[2, 2], [3], [2]], [[2], [2, 3], [2]], [[2, 3], [2, 2]], [[1], [3, 2], [2], [2, 2]]):
        out.append(('insert-append-concrete/%s' % '+'.join('x'.join(map(str, p)) for p in parts),
                    dict(kind='insert-concrete', parts=parts)))
    out.append(('squeeze-byaxis/3d', dict(kind='squeeze', shape=[2, 1, 3])))
    out.append(('shared-grid/length-1-axis', dict(kind='shared', shape=[1, 3])))
    return out


def canaries(tier, seed):
    return [('canary/uniform', dict(kind='uniform', shape=[3], nob=[[True, False]])),
            ('canary/index', dict(kind='index', shape=[3], nob=[[False, False]]))]


def _limits(ctx, ndim, tag=''):
    mins, maxs = [], []
    for ax in range(ndim):
        a = ctx.real('a%s%d' % (tag, ax), default=-1.0 - ax)
        b = ctx.real('b%s%d' % (tag, ax), default=2.0 + ax)
        # stated precondition: the extent is well above the np.isclose window of the boundary-node detection
        ctx.assume(b - a >= 1)
        ctx.assume(a >= -64)
        ctx.assume(b <= 64)
        mins.append(a)
        maxs.append(b)
    return mins, maxs


def _uniform(ctx, shape, nob, tag=''):
    mins, maxs = _limits(ctx, len(shape), tag)
    nobs = [tuple(b) for b in nob] if nob is not None else False
    if len(shape) == 1:
        p = odl.uniform_partition(mins[0], maxs[0], shape[0], nodes_on_bdry=nobs[0] if nob is not None else False)
    else:
        p = odl.uniform_partition(mins, maxs, tuple(shape), nodes_on_bdry=nobs)
    return p, mins, maxs


def _lst(v):
    return list(flat(v))


def check_tiling(ctx, tag, p, mins, maxs, bump=0):
    """The tiling invariants of one partition."""
    for ax in range(p.ndim):
        bd = _lst(p.cell_boundary_vecs[ax])
        nodes = _lst(p.grid.coord_vectors[ax])
        n = len(nodes)
        ctx.fact('%s/axis%d/boundary-count' % (tag, ax), len(bd) == n + 1)
        ctx.eq('%s/axis%d/first-boundary=min' % (tag, ax), bd[0], mins[ax] + bump)
        ctx.eq('%s/axis%d/last-boundary=max' % (tag, ax), bd[-1], maxs[ax])
        for i in range(n):
            _chk(ctx, '%s/axis%d/boundaries-increasing/%d' % (tag, ax, i), bd[i] < bd[i + 1])
            _chk(ctx, '%s/axis%d/node-in-cell/%d' % (tag, ax, i), (bd[i] <= nodes[i]) & (nodes[i] <= bd[i + 1])
                 if ctx.sym else (bd[i] <= nodes[i] <= bd[i + 1]))
        ctx.eq('%s/axis%d/sizes-sum-to-extent' % (tag, ax), sum((bd[i + 1] - bd[i] for i in range(n)), 0),
               maxs[ax] - mins[ax])
        sizes = _lst(p.cell_sizes_vecs[ax])
        if n > 1:
            ctx.eq('%s/axis%d/cell_sizes=boundary-differences' % (tag, ax), sizes, [bd[i + 1] - bd[i] for i in range(n)])
    ctx.eq('%s/min_pt' % tag, p.min_pt, mins)
    ctx.eq('%s/max_pt' % tag, p.max_pt, maxs)


def _chk(ctx, label, cond):
    if ctx.sym and not isinstance(cond, (bool, np.bool_)):
        ctx.check(label, cond)
    else:
        ctx.fact(label, bool(cond))


def case(ctx, kind, shape=None, nob=None, parts=None):
    bump = 1 if ctx.canary else 0
    if kind == 'uniform':
        p, mins, maxs = _uniform(ctx, shape, nob)
        check_tiling(ctx, 'tiling', p, mins, maxs, bump)
        ctx.fact('shape', tuple(p.shape) == tuple(shape))
        for ax, n in enumerate(shape):
            bl, br = nob[ax]
            if min(shape) > 1:
                cs = _lst(p.cell_sides)[ax]
            if n > 1 and min(shape) > 1:
                ctx.eq('cell_side*count=extent/axis%d' % ax, cs * (n - 0.5 * bl - 0.5 * br), maxs[ax] - mins[ax])
            nodes = _lst(p.grid.coord_vectors[ax])
            if bl and n > 1:
                ctx.eq('node-on-left-boundary/axis%d' % ax, nodes[0], mins[ax])
            if br and n > 1:
                ctx.eq('node-on-right-boundary/axis%d' % ax, nodes[-1], maxs[ax])
            fr = p.boundary_cell_fractions[ax]
            ctx.eq('boundary-fractions/axis%d' % ax, list(fr),
                   [0.5 if bl else 1.0, 0.5 if br else 1.0] if n > 1 else list(fr))
        return
    if kind == 'index':
        p, mins, maxs = _uniform(ctx, shape, nob)
        pt = []
        for ax in range(len(shape)):
            q = ctx.real('q%d' % ax)
            ctx.assume(q >= mins[ax])
            ctx.assume(q <= maxs[ax])
            pt.append(q)
        idx = p.index(pt if len(shape) > 1 else pt[0])
        idx = (idx,) if len(shape) == 1 else tuple(idx)
        fidx = p.index(pt if len(shape) > 1 else pt[0], floating=True)
        fidx = (fidx,) if len(shape) == 1 else tuple(fidx)
        if ctx.canary:
            ctx.eq('canary', _lst(p.cell_boundary_vecs[0])[0], mins[0] + 1)
        for ax in range(len(shape)):
            bd = _lst(p.cell_boundary_vecs[ax])
            i = int(idx[ax])
            ctx.fact('index-in-range/axis%d' % ax, 0 <= i < shape[ax])
            _chk(ctx, 'point-in-returned-cell/axis%d' % ax, (bd[i] <= pt[ax]) & (pt[ax] <= bd[i + 1]) if ctx.sym
                 else bd[i] <= pt[ax] <= bd[i + 1])
            # documented fractional position: integer part = cell, fraction = relative position in that cell
            frac = (pt[ax] - bd[i]) / (bd[i + 1] - bd[i])
            fi = fidx[ax]
            if ctx.sym:
                ctx.check('floating-index/axis%d' % ax,
                          (fi == i + frac + bump) | ((pt[ax] == bd[i + 1]) & (fi == i + 1)) | ((pt[ax] == bd[i]) & (fi == i)))
            else:
                ctx.fact('floating-index/axis%d' % ax, abs(fi - (i + frac + bump)) < 1e-6 or
                         (abs(fi - round(fi)) < 1e-9 and abs(frac - round(frac)) < 1e-9))
        return
    if kind == 'slices':
        p, mins, maxs = _uniform(ctx, shape, nob)
        per_axis = []
        for n in shape:
            cands = [slice(None)]
            if n >= 2:
                cands += [slice(1, None), slice(None, n - 1)]
            if n >= 3:
                cands += [slice(None, None, 2), slice(1, None, 2), slice(1, n - 1)]
            # negative bounds count from the end (cells, i.e. one less than the number of boundaries)
            if n >= 2:
                cands += [slice(None, -1), slice(-1, None)]
            if n >= 3:
                cands += [slice(1, -1), slice(-2, None), slice(-3, -1)]
            per_axis.append(cands)
        combos = list(itertools.product(*per_axis))
        if len(combos) > 12:
            combos = combos[::max(1, len(combos) // 12)]
        for ci, idx in enumerate(combos):
            sub = p[idx if len(shape) > 1 else idx[0]]
            tag = 'slice%d:%s' % (ci, idx)
            smins, smaxs = [], []
            for ax, sl in enumerate(idx):
                bd = _lst(p.cell_boundary_vecs[ax])
                nodes = _lst(p.grid.coord_vectors[ax])
                sel = list(range(shape[ax]))[sl]
                stop = sl.indices(shape[ax])[1]
                ctx.eq('%s/axis%d/nodes=selected-nodes' % (tag, ax), sub.grid.coord_vectors[ax],
                       [nodes[i] for i in sel])
                # outer limits = outer boundaries of the selected range
                # (documented by example: a strided slice keeps the limits of the full range start:stop)
                smins.append(bd[sel[0]])
                smaxs.append(bd[stop])
                step = sl.step or 1
                if step == 1:
                    ctx.eq('%s/axis%d/cells=original-cells' % (tag, ax), sub.cell_boundary_vecs[ax],
                           [bd[i] for i in sel] + [bd[sel[-1] + 1]])
            check_tiling(ctx, tag, sub, smins, smaxs, bump if ci == 0 else 0)
        return
    if kind in ('nonuniform', 'nonuniform-index'):
        n = shape[0]
        a = ctx.real('a')
        b = ctx.real('b')
        cs = [ctx.real('c%d' % i) for i in range(n)]
        ctx.assume(a <= cs[0])
        for i in range(n - 1):
            ctx.assume(cs[i + 1] - cs[i] >= 0.25)
        ctx.assume(cs[-1] <= b)
        ctx.assume(b - a >= 1)
        ctx.assume(a >= -64)
        ctx.assume(b <= 64)
        # nodes are either exactly on a limit or well away from it (isclose window precondition)
        onl = bool(cs[0] == a) if n else False
        if not onl:
            ctx.assume(cs[0] - a >= 0.125)
        onr = bool(cs[-1] == b)
        if not onr:
            ctx.assume(b - cs[-1] >= 0.125)
        from symnp.sarray import wrap
        cv = wrap(np.array(cs, dtype=object), np.dtype('float64')) if ctx.sym else np.array(cs, dtype=float)
        p = odl.nonuniform_partition(cv, min_pt=a, max_pt=b)
        if kind == 'nonuniform':
            check_tiling(ctx, 'tiling', p, [a], [b], bump)
            bd = _lst(p.cell_boundary_vecs[0])
            for i in range(1, n):
                ctx.eq('inner-boundary=midpoint/%d' % i, bd[i], (cs[i - 1] + cs[i]) / 2)
            return
        q = ctx.real('q')
        ctx.assume(q >= a)
        ctx.assume(q <= b)
        i = int(p.index(q))
        bd = _lst(p.cell_boundary_vecs[0])
        _chk(ctx, 'point-in-returned-cell', (bd[i] <= q) & (q <= bd[i + 1]) if ctx.sym else bd[i] <= q <= bd[i + 1])
        ctx.fact('canary-hook', not ctx.canary) if False else None
        if ctx.canary:
            ctx.eq('canary', bd[0], a + 1)
        return
    if kind == 'nonuniform-single':
        # an axis with a single node: explicit limits must be honoured, defaults are the node itself
        a0, b0, a1, b1 = ctx.real('a0'), ctx.real('b0'), ctx.real('a1'), ctx.real('b1')
        s1 = ctx.real('s1')
        for lo, hi in ((a0, b0), (a1, b1)):
            ctx.assume(hi - lo >= 1)
            ctx.assume(lo >= -64)
            ctx.assume(hi <= 64)
        ctx.assume(s1 - a1 >= 0.125)
        ctx.assume(b1 - s1 >= 0.125)
        cs = [a0 + 0.25, a0 + 0.5, a0 + 0.875]
        from symnp.sarray import wrap

        def vec(vals):
            return wrap(np.array(vals, dtype=object), np.dtype('float64')) if ctx.sym else np.array(vals, dtype=float)
        p2 = odl.nonuniform_partition(vec(cs), vec([s1]), min_pt=[a0, a1], max_pt=[b0, b1])
        check_tiling(ctx, 'explicit-limits', p2, [a0, a1], [b0, b1], bump)
        p1 = odl.nonuniform_partition(vec([s1]), min_pt=a1, max_pt=b1)
        check_tiling(ctx, 'explicit-limits/1d', p1, [a1], [b1], 0)
        pm = odl.nonuniform_partition(vec(cs), vec([s1]), min_pt=[a0, a1])
        ctx.eq('only-min-given/max-of-single-node-axis', _lst(pm.max_pt)[1], s1)
        ctx.eq('only-min-given/min', pm.min_pt, [a0, a1])
        return
    if kind == 'fromgrid-dict':
        # limits given as dictionaries (selected axes, negative keys count from the end, any value incl. 0)
        grid = odl.uniform_grid([0.0, 1.0], [1.0, 2.5], tuple(shape))
        lo, hi = ctx.real('lo'), ctx.real('hi')
        ctx.assume(lo <= 0)
        ctx.assume(lo >= -8)
        ctx.assume(hi >= 0)
        ctx.assume(hi <= 8)
        h0 = 0.5 / 2
        h1 = 0.5 / 2
        cases = {
            'min{-2}': (dict(min_pt={-2: lo}), [lo, 1.0 - h1], [1.0 + h0, 2.5 + h1]),
            'min{0}': (dict(min_pt={0: lo}), [lo, 1.0 - h1], [1.0 + h0, 2.5 + h1]),
            'max{-1}': (dict(max_pt={-1: hi + 2.5}), [0.0 - h0, 1.0 - h1], [1.0 + h0, hi + 2.5]),
            'min{-2},max{1}': (dict(min_pt={-2: lo}, max_pt={1: hi + 2.5}), [lo, 1.0 - h1], [1.0 + h0, hi + 2.5]),
        }
        for nm, (kw, emin, emax) in sorted(cases.items()):
            q = odl.uniform_partition_fromgrid(grid, **kw)
            ctx.eq('%s/min_pt' % nm, q.min_pt, [v + bump for v in emin] if bump else emin)
            ctx.eq('%s/max_pt' % nm, q.max_pt, emax)
        # the grid nodes at -1..1: a limit dictionary whose value is exactly the node 0.0 of a shifted grid
        g2 = odl.uniform_grid(-1.0, 0.0, 3)
        q = odl.uniform_partition_fromgrid(g2, max_pt={-1: hi})
        ctx.eq('max{-1}=value/1d', q.max_pt, [hi])
        q = odl.uniform_partition_fromgrid(odl.uniform_grid(0.0, 1.0, 3), min_pt={-1: lo})
        ctx.eq('min{-1}=value/1d', q.min_pt, [lo])
        return
    if kind == 'specs':
        nd = len(shape)
        mins, maxs = _limits(ctx, nd)
        shp = tuple(shape)
        sides = [(maxs[ax] - mins[ax]) / shape[ax] for ax in range(nd)]

        def arg(v):
            return v if nd > 1 else v[0]
        ref = odl.uniform_partition(arg(mins), arg(maxs), arg(shp))
        alts = {
            'min,shape,cell_sides': odl.uniform_partition(min_pt=arg(mins), shape=arg(shp), cell_sides=arg(sides)),
            'max,shape,cell_sides': odl.uniform_partition(max_pt=arg(maxs), shape=arg(shp), cell_sides=arg(sides)),
        }
        # the (min, max, cell_sides) specification rounds (max - min) / cell_sides: checked on concrete values
        cmin, cmax = [-1.0, 0.5][:nd], [2.0, 2.0][:nd]
        cref = odl.uniform_partition(arg(cmin), arg(cmax), arg(shp))
        calt = odl.uniform_partition(min_pt=arg(cmin), max_pt=arg(cmax),
                                     cell_sides=arg([(b_ - a_) / n for a_, b_, n in zip(cmin, cmax, shp)]))
        ctx.fact('spec:min,max,cell_sides(concrete)', calt == cref)
        for nm, q in sorted(alts.items()):
            ctx.fact('spec:%s/shape' % nm, tuple(q.shape) == shp, 'shape %s' % (q.shape,))
            for ax in range(nd):
                ctx.eq('spec:%s/axis%d/boundaries' % (nm, ax), q.cell_boundary_vecs[ax],
                       [v + bump for v in _lst(ref.cell_boundary_vecs[ax])] if bump else ref.cell_boundary_vecs[ax])
                ctx.eq('spec:%s/axis%d/nodes' % (nm, ax), q.grid.coord_vectors[ax], ref.grid.coord_vectors[ax])
        return
    if kind == 'insert':
        ps, lims = [], []
        for k, shp in enumerate(parts):
            p, mins, maxs = _uniform(ctx, shp, [[False, False]] * len(shp), tag='p%d_' % k)
            ps.append(p)
            lims.append((mins, maxs))

        def expect(order):
            mins, maxs, bds = [], [], []
            for k in order:
                mins += lims[k][0]
                maxs += lims[k][1]
                bds += [_lst(v) for v in ps[k].cell_boundary_vecs]
            return mins, maxs, bds

        def compare(tag, got, order):
            mins, maxs, bds = expect(order)
            ctx.fact('%s/ndim' % tag, got.ndim == len(bds), 'ndim %d expected %d' % (got.ndim, len(bds)))
            if got.ndim != len(bds):
                return
            for ax in range(got.ndim):
                ctx.eq('%s/axis%d/boundaries' % (tag, ax), got.cell_boundary_vecs[ax], bds[ax])
            check_tiling(ctx, tag, got, mins, maxs, 0)
        compare('append-all', ps[0].append(*ps[1:]), list(range(len(ps))))
        compare('insert-front', ps[-1].insert(0, *ps[:-1]), list(range(len(ps))))
        if len(ps) == 3:
            compare('insert-middle', ps[0].insert(ps[0].ndim, ps[1]).append(ps[2]), [0, 1, 2])
            compare('append-two-at-once', ps[0].append(ps[1], ps[2]), [0, 1, 2])
            compare('insert-two-at-once-front', ps[2].insert(0, ps[0], ps[1]), [0, 1, 2])
            compare('insert-two-at-once/negative-index', ps[2].insert(-ps[2].ndim, ps[0], ps[1]), [0, 1, 2])
        if ctx.canary:
            ctx.eq('canary', lims[0][0][0], lims[0][0][0] + 1)
        return
    if kind == 'insert-concrete':
        # axis bookkeeping of multi-argument insert/append on concrete dyadic partitions (concrete facts)
        ps = []
        off = 0.0
        for k, shp in enumerate(parts):
            mins = [off + 4.0 * k + ax for ax in range(len(shp))]
            maxs = [m + 0.5 * n * (ax + 1) for ax, (m, n) in enumerate(zip(mins, shp))]
            ps.append(odl.uniform_partition(mins, maxs, tuple(shp)) if len(shp) > 1 else
                      odl.uniform_partition(mins[0], maxs[0], shp[0]))

        def expect(order):
            out = []
            for k in order:
                out += [list(v) for v in ps[k].cell_boundary_vecs]
            return out

        def same(tag, got, order):
            exp = expect(order)
            ok = got.ndim == len(exp) and all(np.allclose(got.cell_boundary_vecs[ax], exp[ax]) for ax in range(len(exp))
                                              if len(got.cell_boundary_vecs[ax]) == len(exp[ax])) and \
                all(len(got.cell_boundary_vecs[ax]) == len(exp[ax]) for ax in range(min(got.ndim, len(exp))))
            ctx.fact(tag, ok, 'boundaries %s expected %s' % ([list(v) for v in got.cell_boundary_vecs], exp))
            ctx.fact(tag + '/set-matches-grid', np.allclose(got.min_pt, [e[0] for e in exp]) and
                     np.allclose(got.max_pt, [e[-1] for e in exp]) if got.ndim == len(exp) else False)
        n = len(ps)
        same('append-all-at-once', ps[0].append(*ps[1:]), list(range(n)))
        same('insert-all-at-front', ps[-1].insert(0, *ps[:-1]), list(range(n)))
        chained = ps[0]
        for q in ps[1:]:
            chained = chained.append(q)
        same('append-chained', chained, list(range(n)))
        if n >= 3:
            same('insert-two-in-the-middle', ps[0].append(ps[-1]).insert(ps[0].ndim, *ps[1:-1]), list(range(n)))
            # negative insertion index = counted from the end of the receiving partition, also with several parts
            same('insert-in-the-middle/negative-index', ps[0].append(ps[-1]).insert(-ps[-1].ndim, *ps[1:-1]),
                 list(range(n)))
            same('insert-one/negative-index', ps[0].append(ps[2]).insert(-ps[2].ndim, ps[1]), [0, 1, 2])
        return
    if kind == 'squeeze':
        p, mins, maxs = _uniform(ctx, shape, [[False, False]] * len(shape))
        keep = [ax for ax, n in enumerate(shape) if n != 1]
        sq = p.squeeze()
        ctx.fact('squeeze/ndim', sq.ndim == len(keep))
        for k, ax in enumerate(keep):
            ctx.eq('squeeze/axis%d/boundaries' % ax, sq.cell_boundary_vecs[k], p.cell_boundary_vecs[ax])
        by = p.byaxis[[2, 0]]
        ctx.eq('byaxis/axis0', by.cell_boundary_vecs[0], p.cell_boundary_vecs[2])
        ctx.eq('byaxis/axis1', by.cell_boundary_vecs[1], p.cell_boundary_vecs[0])
        check_tiling(ctx, 'byaxis', by, [mins[2], mins[0]], [maxs[2], maxs[0]], 0)
        one = p.byaxis[1]
        check_tiling(ctx, 'byaxis-single', one, [mins[1]], [maxs[1]], 0)
        return
    if kind == 'shared':
        # two partitions over the same RectGrid object (with a length-1 axis) but different extents; the
        # length-1 stride is a concrete 0.0 that cell_sides overwrites, so this sequence is checked on concrete
        # dyadic values (concrete facts, not solver obligations)
        p = odl.uniform_partition([0.0, 0.0], [1.0, 3.0], tuple(shape))
        cs1 = list(p.cell_sides)
        cv1 = p.cell_volume
        nodes = [list(v) for v in p.grid.coord_vectors]
        mins2 = [min(nodes[0]) - 2.0, min(nodes[1]) - 0.5]
        maxs2 = [max(nodes[0]) + 2.0, max(nodes[1]) + 0.5]
        q = odl.uniform_partition_fromgrid(p.grid, min_pt=mins2, max_pt=maxs2)
        cs2 = list(q.cell_sides)
        for ax, n in enumerate(shape):
            if n == 1:
                ctx.fact('first/cell_side=extent/axis%d' % ax, abs(cs1[ax] - 1.0) < 1e-12)
                ctx.fact('second/cell_side=extent/axis%d' % ax, abs(cs2[ax] - (maxs2[ax] - mins2[ax])) < 1e-12,
                         'cell side %s for extent %s' % (cs2[ax], maxs2[ax] - mins2[ax]))
        ctx.fact('second/cell_volume', abs(q.cell_volume - np.prod(cs2)) < 1e-12)
        ctx.fact('first-still-consistent', list(p.cell_sides) == cs1 and p.cell_volume == cv1)
        ctx.fact('grid-stride-of-length-1-axis-is-0', all(p.grid.stride[ax] == 0 for ax, n in enumerate(shape) if n == 1),
                 'stride %s' % (p.grid.stride,))
        return
    raise ValueError(kind)
