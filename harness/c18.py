"""C18 — Fourier transforms invert exactly and agree across back-ends (the part ODL's own code decides).

Real code executed: DiscreteFourierTransform / DiscreteFourierTransformInverse / FourierTransform /
FourierTransformInverse (_call, _call_numpy, _call_pyfftw, inverse, temporaries), pyfftw_call and its argument
checks, reciprocal_grid / reciprocal_space, dft_preprocess_data, dft_postprocess_data, _interp_kernel_ft.
The two FFT libraries are replaced by their documented input/output relation (symnp.fftmodel), with the FFTW side
effects (planning overwrites the plan arrays, destroyed inputs) as untracked garbage; in concrete mode the real
libraries run, so every explored path also compares the model with numpy.fft and FFTW.
Symbolic: every entry of the input (real or complex)."""
import itertools
import math
import cmath

import numpy as np
import odl

from symnp.ctx import flat
from symnp.scalars import is_symscalar

EXPLANATION = ('C18 (wavelets): WaveletTransform / WaveletTransformInverse with the Haar wavelet on even lengths (1-3d, axes '
               'subsets, 1-3 levels, all extension modes): inverse(W(x)) = x, W(inverse(c)) = c, both returned adjoints '
               'satisfy the adjoint identity in the inner products of the spaces (cell volumes != 1), energy identity. '
               'C18 (Fourier): the Fourier operators are executed on arrays of solver variables with both back-ends; the DFT must '
               'equal the discrete Fourier sum over the chosen axes (exact arithmetic for lengths 2, 3, 4, 6: sqrt(3) '
               'through its axiom), the inverse must recover every input, numpy and pyfftw results must coincide '
               'out-of-place and in-place and must not depend on the previous contents of outputs, temporaries or plan '
               'arrays; the continuous transform must equal s * phi_hat(xi_bar) * sum_j f(x_j) exp(-+ i x_j xi_k) on '
               'the reciprocal grid built by the real code, and its inverse must recover every input (linear real '
               'arithmetic with the float phase factors, decided within 1e-9 on the box).')
BOUNDS = {'quick': {'shapes': '(2,), (3,), (4,), (5,), (6,), (3,4), (4,3), (2,3,2)', 'axes': 'all subsets in 2d, '
                    '(0,2), (1,) in 3d', 'halfcomplex': 'both', 'sign': 'both', 'shift': 'all per-axis combinations',
                    'impl': 'numpy, pyfftw', 'dtypes': 'float64, complex128 (float32 / complex64 claimed dtypes in the '
                    'thorough tier)'}}
OUTSIDE = ['the FFT libraries themselves (numpy.fft, FFTW): replaced by the discrete Fourier sum; compared with the '
           'real libraries at one point per explored path',
           'convergence to the analytic transform of a Gaussian under grid refinement (an asymptotic statement about '
           'floating-point values on growing grids; the check decides the exact quadrature formula instead)',
           'wavelets other than Haar, odd lengths at any level, biorthogonal wavelets: decomposition and reconstruction '
           'happen inside PyWavelets (compiled); only the Haar wavelet on even lengths is modelled (symnp.pywtmodel), '
           'where every extension mode gives the same coefficients',
           'floating-point rounding']
ASSUMPTIONS = ['pywt.wavedecn / waverecn / ravel_coeffs / unravel_coeffs for the Haar wavelet on even lengths compute the '
               'pairwise sums and differences scaled by 1/sqrt(2) in the documented coefficient layout (compared with '
               'PyWavelets at one point per explored path)',
               'FFTW planning with an effort above ESTIMATE overwrites both plan arrays (documented; FFTW does so when it '
               'really measures, observed for n = 1000; concrete replays run the real FFTW behind a wrapper that '
               'overwrites the plan arrays with NaN after such planning, so that the contract is observable at the '
               'small sizes of the check)',
               'numpy.fft.{fftn,ifftn,rfftn,irfftn} and pyfftw.FFTW compute the documented (un)normalised discrete '
               'Fourier sums, including c2r semantics and FFTW\'s documented destruction of inputs / plan arrays']
SETTINGS = {'max_paths': 50, 'tol': (1e-9, 8), 'obligation_timeout_ms': 20000}
CFG_TIMEOUT = {'quick': 300, 'thorough': 1200}


def subsets(nd):
    out = []
    for r in range(1, nd + 1):
        out += list(itertools.combinations(range(nd), r))
    return out


def configs(tier, seed):
    out = []
    shapes = [(2,), (3,), (4,), (5,), (6,), (3, 4), (4, 3)]
    for shape in shapes:
        nd = len(shape)
        for axes in subsets(nd):
            for impl in ('numpy', 'pyfftw'):
                for hc in (False, True):
                    for sign in ('-', '+'):
                        if hc and sign == '+':
                            continue
                        for dt in (('float64',) if hc else ('float64', 'complex128')):
                            if tier == 'quick' and nd == 2 and dt == 'float64' and not hc and sign == '+':
                                continue
                            cid = 'dft/%s/axes=%s/%s/%s/sign%s/%s' % ('x'.join(map(str, shape)),
                                                                     ','.join(map(str, axes)), impl,
                                                                     'halfcomplex' if hc else 'full', sign, dt)
                            out.append((cid, dict(kind='dft', shape=shape, axes=axes, impl=impl, hc=hc, sign=sign,
                                                  dtype=dt)))
    out.append(('dft/2x3x2/axes=0,2/numpy/halfcomplex/sign-/float64',
                dict(kind='dft', shape=(2, 3, 2), axes=(0, 2), impl='numpy', hc=True, sign='-', dtype='float64')))
    out.append(('dft/2x3x2/axes=1/pyfftw/full/sign+/complex128',
                dict(kind='dft', shape=(2, 3, 2), axes=(1,), impl='pyfftw', hc=False, sign='+', dtype='complex128')))
    for shape in ((4,), (3, 4)):
        out.append(('dft-inverse-real-full/%s/pyfftw' % 'x'.join(map(str, shape)),
                    dict(kind='dft', shape=shape, axes=tuple(range(len(shape))), impl='numpy', hc=False, sign='-',
                         dtype='float64', pyfftw_inverse_only=True)))
    # wavelets (Haar on even lengths; see symnp.pywtmodel)
    wl = [((4,), [(0.0, 2.0)]), ((8,), [(0.0, 1.0)]), ((4, 2), [(0.0, 2.0), (0.0, 1.0)]), ((2, 4), [(-1.0, 1.0), (0.0, 1.0)]),
          ((2, 4, 2), [(0.0, 1.0), (0.0, 2.0), (0.0, 4.0)])]
    for shape, box in wl:
        nd = len(shape)
        for axes in [None] + [a for a in subsets(nd) if len(a) < nd]:
            tr = range(nd) if axes is None else axes
            maxlev = min(int(math.log2(shape[d])) for d in tr)
            for nlevels in range(1, maxlev + 1):
                for pad in ('pywt_periodic', 'constant', 'symmetric', 'periodic', 'order0', 'order1', 'reflect', 'antisymmetric'):
                    if tier == 'quick' and pad not in ('pywt_periodic', 'symmetric') and nd > 1:
                        continue
                    cid = 'wavelet/haar/%s/axes=%s/levels=%d/%s' % (
                        'x'.join(map(str, shape)), 'all' if axes is None else ','.join(map(str, axes)), nlevels, pad)
                    out.append((cid, dict(kind='wavelet', shape=shape, box=box, axes=axes, impl='pywt', hc=False,
                                          sign='-', dtype='float64', shift=(nlevels, pad))))
    # continuous transform
    ft_shapes = [((3,), [(0.0, 1.5)]), ((4,), [(-1.0, 1.0)]), ((5,), [(-1.0, 0.25)]),
                 ((3, 4), [(0.0, 1.5), (-1.0, 3.0)]), ((4, 3), [(-2.0, 2.0), (0.5, 1.25)])]
    for shape, box in ft_shapes:
        nd = len(shape)
        for axes in subsets(nd):
            for shift in itertools.product((True, False), repeat=len(axes)):
                for impl in ('numpy', 'pyfftw'):
                    for hc in (False, True):
                        for sign in ('-', '+'):
                            if hc and sign == '+':
                                continue
                            if hc and not shift[-1]:
                                continue        # documented: shift must be True in the halved axis
                            if hc and not all(shift) and (impl, shape) not in (('numpy', (3, 4)), ('pyfftw', (4, 3))):
                                continue        # known finding: two instances kept
                            dt = 'float64' if hc else 'complex128'
                            if tier == 'quick' and nd == 2 and (impl == 'pyfftw') != (sign == '-') and not hc:
                                continue
                            cid = 'ft/%s/axes=%s/shift=%s/%s/%s/sign%s' % (
                                'x'.join(map(str, shape)), ','.join(map(str, axes)),
                                ''.join('T' if s else 'F' for s in shift), impl, 'halfcomplex' if hc else 'full', sign)
                            out.append((cid, dict(kind='ft', shape=shape, box=box, axes=axes, shift=shift, impl=impl,
                                                  hc=hc, sign=sign, dtype=dt)))
    # axes of EQUAL length with different per-axis shift flags
    for shape, box in (((4, 4), [(0.0, 2.0), (-1.0, 3.0)]),):
        for shift in ((True, False), (False, True)):
            for impl in ('numpy', 'pyfftw'):
                cid = 'ft/%s/axes=0,1/shift=%s/%s/full/sign-' % ('x'.join(map(str, shape)),
                                                                 ''.join('T' if s_ else 'F' for s_ in shift), impl)
                out.append((cid, dict(kind='ft', shape=shape, box=box, axes=(0, 1), shift=shift, impl=impl, hc=False,
                                      sign='-', dtype='complex128')))
    out.append(('ft/real-to-complex/4x3/axes=1', dict(kind='ft', shape=(4, 3), box=[(-2.0, 2.0), (0.5, 1.25)],
                                                      axes=(1,), shift=(False,), impl='pyfftw', hc=False, sign='-',
                                                      dtype='float64')))
    out.append(('ft/real-to-complex/3/numpy', dict(kind='ft', shape=(3,), box=[(0.0, 1.5)], axes=(0,), shift=(True,),
                                                   impl='numpy', hc=False, sign='-', dtype='float64')))
    return out


def canaries(tier, seed):
    return [('canary/dft', dict(kind='dft', shape=(3, 4), axes=(1,), impl='pyfftw', hc=False, sign='-',
                                dtype='complex128')),
            ('canary/ft', dict(kind='ft', shape=(4,), box=[(-1.0, 1.0)], axes=(0,), shift=(False,), impl='numpy',
                               hc=False, sign='-', dtype='complex128'))]


def entries(ctx, el, shape):
    """nested object/complex array of the raw entries of an element"""
    a = np.empty(int(np.prod(shape)), dtype=object)
    f = flat(el)
    for i in range(a.size):
        a[i] = f[i]
    return a.reshape(shape)


def exact_twiddle(ctx, n, m, sign):
    if ctx.sym:
        from symnp.fftmodel import twiddle
        return twiddle(n, m, sign)
    return cmath.exp(sign * 2j * math.pi * (m % n) / n)


def dft_reference(ctx, X, axes, sign, hc):
    """the discrete Fourier sum over ``axes`` (written out independently of the library model: plain nested sums)"""
    shape = X.shape
    out_shape = list(shape)
    if hc:
        out_shape[axes[-1]] = shape[axes[-1]] // 2 + 1
    out = np.empty(out_shape, dtype=object)
    s = -1 if sign == '-' else +1
    for k in np.ndindex(*out_shape):
        acc = 0
        ranges = [range(shape[d]) if d in axes else [k[d]] for d in range(len(shape))]
        for j in itertools.product(*ranges):
            w = 1
            for d in axes:
                w = w * exact_twiddle(ctx, shape[d], j[d] * k[d], s)
            acc = acc + X[j] * w
        out[k] = acc
    return out


def fftw_contract_doc():
    pass


def fftw_contract():
    """Concrete runs (shadow validation, replay): the real FFTW behind a wrapper that makes one documented part of
    its contract observable at small sizes -- planning with an effort above ESTIMATE overwrites the plan arrays
    (FFTW really does so once it measures, e.g. for n = 1000)."""
    import odl.trafos.backends.pyfftw_bindings as pb
    from symnp.fftmodel import FakePyFFTW
    if not isinstance(pb.pyfftw, FakePyFFTW):
        pb.pyfftw = FakePyFFTW(pb.pyfftw)


def case(ctx, kind, shape, axes, impl, hc, sign, dtype, box=None, shift=None, pyfftw_inverse_only=False):
    bump = 1 if ctx.canary else 0
    fftw_contract()
    import symnp.fftmodel as fm
    fm.EXACT = kind == 'dft'        # the continuous transform multiplies with float phase factors anyway
    nd = len(shape)
    T = odl.trafos
    if kind == 'dft':
        dom = odl.uniform_discr([0] * nd, [1] * nd, shape, dtype=dtype)
        op = T.DiscreteFourierTransform(dom, axes=axes, halfcomplex=hc, sign=sign, impl=impl)
        x = ctx.element(dom, 'x')
        X = entries(ctx, x, shape)
        ref = dft_reference(ctx, X, axes, sign, hc)
        x0 = ctx.snapshot(x)
        y = op(x)
        ctx.fact('range-shape', y.shape == ref.shape)
        ctx.eq('dft=discrete-fourier-sum', y, ref + bump)
        ctx.eq('input-unchanged', x, x0)
        o = ctx.garbage(op.range, 'o')
        r = op(x, out=o)
        ctx.fact('returns-out', r is o)
        ctx.eq('dft(out=)', o, ref)
        ctx.eq('input-unchanged(out=)', x, x0)
        if dtype == 'complex128' and not hc:
            # in place: the argument is the output (a fresh operator, so that the plan is made on these arrays)
            op_ip = T.DiscreteFourierTransform(dom, range=dom, axes=axes, halfcomplex=hc, sign=sign, impl=impl)
            z = x.copy()
            op_ip(z, out=z)
            ctx.eq('in-place(out=x)', z, ref)
            op_ip(z, out=z)
            ctx.eq('in-place(out=x)/second-call', z, dft_reference(ctx, ref, axes, sign, hc))
        # second call re-uses the FFTW plan
        y2 = op(x)
        ctx.eq('second-call(plan-reuse)', y2, ref)
        if impl == 'pyfftw':
            # a plan made in advance (documented use: init_fftw_plan, then call) computes the same transform
            opp = T.DiscreteFourierTransform(dom, axes=axes, halfcomplex=hc, sign=sign, impl=impl)
            opp.init_fftw_plan()
            ctx.eq('pre-planned/dft', opp(x), ref)
            ctx.eq('pre-planned/dft/second-call', opp(x), ref)
            ctx.eq('pre-planned/input-unchanged', x, x0)
            if not (dtype == 'float64' and not hc):
                invp = opp.inverse
                invp.init_fftw_plan()
                ctx.eq('pre-planned/inverse(dft(x))=x', invp(y2), x0)
        inv = op.inverse
        ctx.fact('inverse-keeps-back-end', inv.impl == impl)
        isign = '+' if sign == '-' else '-'
        real_full = dtype == 'float64' and not hc
        if real_full and not pyfftw_inverse_only:
            # onto a real space without halfcomplex only the numpy back-end has an inverse (known finding, see the
            # dft-inverse-real-full configurations)
            inv = T.DiscreteFourierTransformInverse(dom, axes=axes, halfcomplex=hc, sign=isign, impl='numpy')
        if pyfftw_inverse_only:
            inv = T.DiscreteFourierTransformInverse(dom, axes=axes, halfcomplex=hc, sign=isign, impl='pyfftw')
        back = inv(y)
        ctx.eq('inverse(dft(x))=x', back, x0)
        o2 = ctx.garbage(dom, 'o2')
        inv(y, out=o2)
        ctx.eq('inverse(dft(x), out=)=x', o2, x0)
        ctx.eq('inverse-again(argument-not-destroyed)', inv(y), x0)
        # the other back-end's inverse recovers the input as well
        other = 'pyfftw' if impl == 'numpy' else 'numpy'
        if not (real_full and other == 'pyfftw'):
            inv2 = T.DiscreteFourierTransformInverse(dom, axes=axes, halfcomplex=hc, sign=isign, impl=other)
            ctx.eq('inverse[%s](dft[%s](x))=x' % (other, impl), inv2(y), x0)
        if not hc and not real_full:
            # the inverse's inverse is the forward transform again
            ctx.eq('inverse.inverse=dft', inv.inverse(x), ref)
        return
    if kind == 'ft':
        lo = [b[0] for b in box]
        hi = [b[1] for b in box]
        dom = odl.uniform_discr(lo, hi, shape, dtype=dtype)
        kw = dict(axes=axes, halfcomplex=hc, sign=sign, impl=impl, shift=list(shift))
        op = T.FourierTransform(dom, **kw)
        x = ctx.element(dom, 'x')
        X = entries(ctx, x, shape)
        x0 = ctx.snapshot(x)
        y = op(x)
        # reference: s * phi_hat(xi_bar) * sum_j f(x_j) exp(-+ i x_j xi_k) per transformed axis, on the grids of the
        # operator's own domain and range
        rgrid = [np.asarray(v, dtype=float) for v in dom.grid.coord_vectors]
        kgrid = [np.asarray(v, dtype=float) for v in op.range.grid.coord_vectors]
        stride = [float(s) for s in dom.grid.stride]
        sg = -1.0 if sign == '-' else 1.0
        out_shape = tuple(len(kgrid[d]) if d in axes else shape[d] for d in range(nd))
        ctx.fact('range-shape', op.range.shape == out_shape)
        if hc:
            ctx.fact('halfcomplex-length', out_shape[axes[-1]] == shape[axes[-1]] // 2 + 1)
        # the reciprocal grid itself (documented): xi_k * s = -pi + pi (2k + [not shift]) / N, the first N//2+1 of
        # them in the halved axis; untransformed axes keep the real-space coordinates
        for pos, d in enumerate(axes):
            N = shape[d]
            want = [(-math.pi + math.pi * (2 * k + (0 if shift[pos] else 1)) / N) / stride[d] for k in range(N)]
            if hc and d == axes[-1]:
                want = want[:N // 2 + 1]
            ctx.fact('reciprocal-grid/axis%d' % d, len(kgrid[d]) == len(want) and
                     all(abs(a_ - b_) <= 1e-9 * (1 + abs(b_)) for a_, b_ in zip(kgrid[d], want)),
                     'got %s expected %s' % (list(kgrid[d]), want))
        for d in range(nd):
            if d not in axes:
                ctx.fact('untransformed-axis%d-keeps-its-coordinates' % d,
                         np.allclose(kgrid[d], rgrid[d], rtol=0, atol=1e-12))
        ref = np.empty(out_shape, dtype=object)
        for k in np.ndindex(*out_shape):
            ranges = [range(shape[d]) if d in axes else [k[d]] for d in range(nd)]
            pref = 1.0
            for d in axes:
                nf = kgrid[d][k[d]] * stride[d] / (2 * math.pi)            # normalised frequency in [-1/2, 1/2]
                pref *= stride[d] * float(np.sinc(nf)) / math.sqrt(2 * math.pi)
            acc = 0
            for j in itertools.product(*ranges):
                ph = sum(rgrid[d][j[d]] * kgrid[d][k[d]] for d in axes)
                acc = acc + X[j] * (pref * cmath.exp(sg * 1j * ph))
            ref[k] = acc
        ctx.eq('ft=quadrature-formula', y, ref + bump)
        ctx.eq('input-unchanged', x, x0)
        o = ctx.garbage(op.range, 'o')
        op(x, out=o)
        ctx.eq('ft(out=)', o, ref)
        # with temporaries (re-used between calls) and plan re-use
        op2 = T.FourierTransform(dom, **kw)
        op2.create_temporaries()
        ctx.eq('ft-with-temporaries', op2(x), ref)
        ctx.eq('ft-with-temporaries/second-call', op2(x), ref)
        ctx.eq('input-unchanged(temporaries)', x, x0)
        inv = op.inverse
        back = inv(y)
        ctx.eq('inverse(ft(x))=x', back, x0)
        ctx.eq('inverse-with-temporaries(ft(x))=x', op2.inverse(op2(x)), x0)
        o2 = ctx.garbage(dom, 'o2')
        inv(y, out=o2)
        ctx.eq('inverse(ft(x), out=)=x', o2, x0)
        other = 'pyfftw' if impl == 'numpy' else 'numpy'
        op3 = T.FourierTransform(dom, **dict(kw, impl=other))
        ctx.eq('ft[%s]=ft[%s]' % (other, impl), op3(x), y)
        ctx.eq('inverse[%s](ft[%s](x))=x' % (other, impl), op3.inverse(y), x0)
        return
    if kind == 'wavelet':
        nlevels, pad = shift
        lo = [b[0] for b in box]
        hi = [b[1] for b in box]
        dom = odl.uniform_discr(lo, hi, shape, dtype=dtype)
        W = T.WaveletTransform(dom, wavelet='haar', nlevels=nlevels, pad_mode=pad, axes=axes, impl='pywt')
        x = ctx.element(dom, 'x')
        x0 = ctx.snapshot(x)
        c = W(x)
        ctx.fact('coefficient-count', W.range.size == dom.size)
        ctx.eq('input-unchanged', x, x0)
        Winv = W.inverse
        ctx.eq('inverse(W(x))=x', Winv(c), x0)
        cc = ctx.element(W.range, 'c')
        c0 = ctx.snapshot(cc)
        ctx.eq('W(inverse(c))=c', W(Winv(cc)), c0)
        ctx.eq('coefficients-unchanged', cc, c0)
        # orthogonal wavelet: the returned adjoints satisfy the adjoint identity (inner products of the spaces)
        ctx.eq('<W x, c>=<x, W.adjoint(c)>', W(x).inner(cc), x.inner(W.adjoint(cc)))
        ctx.eq('<inverse(c), x>=<c, inverse.adjoint(x)>', Winv(cc).inner(x), cc.inner(Winv.adjoint(x)))
        # energy: Haar analysis is orthogonal, so the plain sums of squares agree
        ctx.eq('sum(W(x)^2)=sum(x^2)', sum(v * v for v in flat(c)), sum(v * v for v in x0) + bump)
        return
    raise ValueError(kind)
