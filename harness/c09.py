"""C09 — functional values, gradients and Lipschitz bounds agree with each other.

Technique: forward-mode AD of the real f._call (dual-number entries x_i + eps d_i): the tangent of f(x + eps d)
is the exact directional derivative of the values; compared with inner(f.gradient(x), d) in the functional's
own (weighted) inner product and with f.derivative(x)(d), for all x and d.  Lipschitz: whenever
grad_lipschitz is finite, |grad f(x) - grad f(y)|^2 <= L^2 |x - y|^2 for all x, y."""
import numpy as np
import odl

from harness import funcs
from symnp.ctx import flat
from symnp.scalars import SD, SV, EngineGap

EXPLANATION = ('C09: the real functional code is executed on dual numbers, giving the exact directional derivative of '
               'x -> f(x); z3 decides equality with inner(f.gradient(x), d) and f.derivative(x)(d) for all x and d '
               '(away from documented kinks, assumed as path conditions) and the Lipschitz inequality for all x, y.')
BOUNDS = {'quick': {'space sizes': '2 entries (product spaces 2x2)', 'spaces': 'rn, array-weighted rn, uniform_discr '
                    '(cell volume 1/2), product spaces', 'functionals': 'every recipe of harness/funcs.py offering a '
                    'gradient (built-ins and derived: sums, scalar multiples, argument/vector scaling, translation, '
                    'composition with operators, product, quotient, quadratic perturbation, Bregman, Moreau envelope)'}}
OUTSIDE = ['non-differentiable points (kinks): excluded by path conditions', 'the Lipschitz inequality of the vector-valued (group) Huber functional on product spaces (sqrt-based piecewise form; solver does not finish)', 'Lipschitz claims involving operator norms of '
           'operators other than small explicit matrices', 'the finite-h rate of a central difference (the exact '
           'derivative is decided instead)']
ASSUMPTIONS = ['calculus rules of the primitives sqrt/exp/log/pow on dual numbers (trusted base of the AD)']
SETTINGS = {'strict_definedness': False, 'max_paths': 200, 'tol': (1e-9, 2), 'obligation_timeout_ms': 20000, 'conc_rtol': 2e-4}
CFG_TIMEOUT = {'quick': 240, 'thorough': 900}


def configs(tier, seed):
    out = []
    for cid, rn, sk in funcs.instances(tier, harness='C09'):
        out.append(('grad/' + cid, dict(kind='grad', recipe=rn, sk=sk)))
        if tier == 'thorough' and sk in ('rn', 'arn', 'discr') and funcs.supports_dim(rn, sk, 3):
            out.append(('grad/%s/n=3' % cid, dict(kind='grad', recipe=rn, sk=sk, n=3)))
        if funcs.fby_name(rn).value is not None:
            out.append(('value/' + cid, dict(kind='value', recipe=rn, sk=sk)))
        if not (funcs.fby_name(rn).kind == 'sqrt' and 'pspace' in sk):
            out.append(('lipschitz/' + cid, dict(kind='lip', recipe=rn, sk=sk, _settings={'max_paths': 2500})))
    out.append(('registry/functionals-complete', dict(kind='registry')))
    return out


def canaries(tier, seed):
    return [('canary/grad/L2NormSquared', dict(kind='grad', recipe='L2NormSquared', sk='arn')),
            ('canary/grad/Huber', dict(kind='grad', recipe='Huber', sk='rn'))]


def dual_element(ctx, space, x, d):
    """Element with entries x_i + eps d_i (symbolic mode)."""
    from symnp.sarray import wrap
    if hasattr(space, 'spaces'):
        return space.element_type(space, [dual_element(ctx, s, xp, dp) for s, xp, dp in zip(space.spaces, x.parts,
                                                                                            d.parts)])
    if hasattr(space, 'tspace'):
        return space.element_type(space, dual_element(ctx, space.tspace, x.tensor, d.tensor))
    xs, ds = flat(x), flat(d)
    a = np.empty(len(xs), dtype=object)
    for i, (u, v) in enumerate(zip(xs, ds)):
        a[i] = SD(u, v)
    return space.element_type(space, wrap(a.reshape(space.shape), space.dtype))


def directional_derivative(ctx, f, x, d):
    if ctx.sym:
        val = f(dual_element(ctx, f.domain, x, d))
        if isinstance(val, SD):
            return val.t
        return SV.__new__(SV) if False else 0 * flat(d)[0]      # value does not depend on x at all
    h = 1e-6
    return (f(x + h * d) - f(x - h * d)) / (2 * h)


def case(ctx, kind, recipe=None, sk=None, n=None):
    if kind == 'registry':
        missing = funcs.unregistered_functionals()
        ctx.fact('every-functional-class-has-a-recipe-or-a-reason', not missing, 'unregistered: %s' % missing)
        return
    r, f = funcs.build(ctx, recipe, sk, n=n)
    if kind == 'value':
        # the functional takes the documented value (derived functionals: the formula of the derivation applied to
        # the base functionals' defining sums in the space's own inner product)
        x = ctx.element(f.domain, 'x')
        if r.pre is not None:
            r.pre(ctx, x)
        px = ctx.snapshot(x)
        exp = r.value(ctx, f.domain, x)
        if exp is None:
            ctx.fact('no-value-oracle-on-this-space', True)
            return
        ctx.eq('value=documented-formula', f(x), exp + (1 if ctx.canary else 0))
        ctx.eq('x-unchanged', x, px)
        return
    try:
        grad = f.gradient
    except NotImplementedError:
        ctx.fact('no-gradient-offered', True)
        return
    if not hasattr(f.domain, 'element'):
        ctx.fact('not-a-linear-space-domain', True)
        return
    from odl.set.sets import Field
    if isinstance(f.domain, Field):
        ctx.fact('field-domain', True)
        return
    x = ctx.element(f.domain, 'x')
    if r.pre is not None:
        r.pre(ctx, x)
    if kind == 'grad':
        d = ctx.element(f.domain, 'd')
        px = ctx.snapshot(x)
        try:
            gx = grad(x)
        except NotImplementedError:
            ctx.fact('no-gradient-offered', True)
            return
        _kink_preconditions(ctx, r, f, x)
        lhs = gx.inner(d)
        try:
            dd = directional_derivative(ctx, f, x, d)
        except NotImplementedError:
            # the functional offers a gradient but no values (e.g. MoreauEnvelope): nothing to relate
            ctx.fact('values-not-implemented', True)
            return
        if ctx.canary:
            dd = dd + 1
        ctx.eq('inner(grad,d)=directional-derivative', lhs, dd)
        ctx.eq('derivative(x)(d)=directional-derivative', f.derivative(x)(d), dd)
        ctx.fact('gradient-in-domain', gx in f.domain)
        ctx.eq('x-unchanged', x, px)
        return
    if kind == 'lip':
        L = f.grad_lipschitz
        if isinstance(L, (SV,)):
            pass
        elif not np.isfinite(L):
            ctx.fact('no-finite-lipschitz-constant', True)
            return
        y = ctx.element(f.domain, 'y')
        if r.pre is not None:
            r.pre(ctx, y)
        try:
            gx, gy = grad(x), grad(y)
        except NotImplementedError:
            ctx.fact('no-gradient-offered', True)
            return
        if isinstance(L, SV):
            ctx.check('L>=0', L >= 0)
        else:
            ctx.fact('L>=0', L >= 0, 'grad_lipschitz = %r is negative' % (L,))
        dg = gx - gy
        dx = x - y
        ctx.le('|grad f(x)-grad f(y)|^2<=L^2|x-y|^2', dg.inner(dg), (L * L) * dx.inner(dx), slack=1e-9)
        return


def _kink_preconditions(ctx, r, f, x):
    """Documented non-differentiable points are excluded (as the property says)."""
    name = r.name
    if 'L1' in name or 'Linf' in name or 'Huber' in name and False:
        pass
