"""C13 — finite-difference operators equal reference stencils; adjoints are transposes.

Real code executed: odl.discr.diff_ops.finite_diff, PartialDerivative / Gradient /
Divergence / Laplacian (_call, adjoint, derivative) through the public Operator API.
Symbolic: every array entry, pad_const.  Oracle: textbook stencil applied to the
array extended by ghost cells according to the *named* boundary rule, written
independently below (exact rational coefficients); ``*_adjoint`` modes are specified
as minus the transpose of the forward mode with the adjoint method (the
property's own definition)."""
import itertools
from fractions import Fraction as Fr

import numpy as np
import odl
from odl.discr import diff_ops

from symnp.ctx import flat
from symnp.larr import LArr, LProxy

EXPLANATION = ('C13: finite_diff and the four difference operators are executed on arrays of solver '
               'variables; per configuration (method, padding, shape, axis, cell side, dtype) every output '
               'entry must equal the ghost-cell reference stencil for all array contents and pad constants; '
               'adjoint identities <Ax,y>=<x,A*y> are decided as polynomial identities in x and y.  anylen/*: '
               'finite_diff runs once on a 1-d array of symbolic LENGTH; the entry at a symbolic position must equal '
               'the ghost-cell stencil (forward modes) or the column of minus the transposed forward matrix (adjoint '
               'modes), out-of-place and with out=, for every length and position.')
BOUNDS = {
    'quick': {'anylen': '1-d, every length n >= 2 (3 for order2) and position 0 <= d < n (unbounded integers)', 'methods': 3, 'pad_modes': 10, 'axis_lengths_1d': '2..5', 'ndim': '1-3', 'shapes_2d': '(2,3),(3,4)', 'shapes_3d': '(2,3,4) raw arrays; (2,3,3)/(3,3,3)/(2,3,2) operators',
              'cell_sides': '1/2, 1, 2', 'dtypes': 'float64, complex128'},
    'thorough': {'anylen': '1-d, every length n >= 2 (3 for order2) and position 0 <= d < n (unbounded integers)', 'methods': 3, 'pad_modes': 10, 'axis_lengths_1d': '2..7', 'ndim': '1-3',
                 'shapes_2d': 'all (a,b) in 2..4', 'shapes_3d': '(2,3,2),(3,3,3)', 'cell_sides': '1/2, 1, 2',
                 'dtypes': 'float64, complex128, float32'},
}
OUTSIDE = ['floating-point rounding', 'axis lengths above the stated bound for ndim >= 2 and for the operator classes '
           '(1-d finite_diff is decided for EVERY length by anylen/*: the length and the examined position are solver '
           'integers, symnp/larr.py; the order-2 one-sided rows recorded as a finding are excluded there)', 'ndim > 3']
ASSUMPTIONS = ["'symmetric' padding of finite_diff replicates the edge value (the code comments and the pinned "
               "test test_finite_diff_symmetric_padding define it so; one docstring sentence says otherwise)"]
EXHAUSTIVE = True
SETTINGS = {'tol': None}

METHODS = ('forward', 'backward', 'central')
FWD_PADS = ('constant', 'symmetric', 'periodic', 'order0', 'order1', 'order2')
ADJ_PADS = ('symmetric_adjoint', 'order0_adjoint', 'order1_adjoint', 'order2_adjoint')
ADJ_METHOD = {'central': 'central', 'forward': 'backward', 'backward': 'forward'}
MIN_LEN = {'order2': 3, 'order2_adjoint': 3}


# ------------------------------------------------------------------ oracle
def ghost_matrix(n, method, pad):
    """(R, r) with  stencil(extended f) = R f + pad_const * r  (exact fractions), step 1."""
    # extended array E[-1], E[0..n-1], E[n] as linear forms (coefficient rows, const coefficient)
    def unit(i):
        row = [Fr(0)] * n
        row[i] = Fr(1)
        return row, Fr(0)

    def comb(pairs):
        row = [Fr(0)] * n
        for c, i in pairs:
            row[i] += Fr(c)
        return row, Fr(0)
    E = {i: unit(i) for i in range(n)}
    if pad == 'constant':
        E[-1] = ([Fr(0)] * n, Fr(1))
        E[n] = ([Fr(0)] * n, Fr(1))
    elif pad in ('symmetric', 'order0'):
        E[-1], E[n] = unit(0), unit(n - 1)
    elif pad == 'periodic':
        E[-1], E[n] = unit(n - 1), unit(0)
    elif pad == 'order1':
        E[-1] = comb([(2, 0), (-1, 1)])
        E[n] = comb([(2, n - 1), (-1, n - 2)])
    elif pad == 'order2':
        E[-1] = comb([(3, 0), (-3, 1), (1, 2)])
        E[n] = comb([(3, n - 1), (-3, n - 2), (1, n - 3)])
    else:
        raise ValueError(pad)
    R = [[Fr(0)] * n for _ in range(n)]
    r = [Fr(0)] * n
    for i in range(n):
        if method == 'forward':
            terms = [(1, i + 1), (-1, i)]
        elif method == 'backward':
            terms = [(1, i), (-1, i - 1)]
        else:
            terms = [(Fr(1, 2), i + 1), (Fr(-1, 2), i - 1)]
        for c, j in terms:
            row, k = E[j]
            for m in range(n):
                R[i][m] += Fr(c) * row[m]
            r[i] += Fr(c) * k
    return R, r


def onesided_matrix(n, method, pad):
    """The alternative reading recorded as known finding (see known_findings.json):
    for forward/backward differences with 'order2' the two boundary rows are the
    second-order one-sided differences -+(3 f0 - 4 f1 + f2)/2 instead of the
    method's own stencil on the quadratically extended array."""
    R, r = ghost_matrix(n, method, pad)
    if pad == 'order2' and method in ('forward', 'backward'):
        R[0] = [Fr(0)] * n
        R[0][0], R[0][1], R[0][2] = Fr(-3, 2), Fr(2), Fr(-1, 2)
        R[n - 1] = [Fr(0)] * n
        R[n - 1][n - 1], R[n - 1][n - 2], R[n - 1][n - 3] = Fr(3, 2), Fr(-2), Fr(1, 2)
    return R, r


def has_variant(method, pad):
    base = pad[:-len('_adjoint')] if pad.endswith('_adjoint') else pad
    m = ADJ_METHOD[method] if pad.endswith('_adjoint') else method
    return base == 'order2' and m in ('forward', 'backward')


def reference_matrix(n, method, pad, variant='ghost'):
    fwd = ghost_matrix if variant == 'ghost' else onesided_matrix
    if pad.endswith('_adjoint'):
        R, _ = fwd(n, ADJ_METHOD[method], pad[:-len('_adjoint')])
        Rt = [[-R[j][i] for j in range(n)] for i in range(n)]
        return Rt, [Fr(0)] * n
    return fwd(n, method, pad)


def apply_ref(f, axis, dx, method, pad, pad_const, variant='ghost'):
    """Reference result as an object/numeric ndarray of the shape of f."""
    f = np.asarray(f)
    n = f.shape[axis]
    R, r = reference_matrix(n, method, pad, variant)
    fm = np.moveaxis(f.view(np.ndarray), axis, 0)
    out = np.empty(fm.shape, dtype=object)
    inv = Fr(1) / Fr(dx)
    for idx in np.ndindex(fm.shape[1:]):
        col = [fm[(i,) + idx] for i in range(n)]
        for i in range(n):
            s = 0
            for m in range(n):
                if R[i][m] != 0:
                    s = s + _mul(R[i][m] * inv, col[m])
            if r[i] != 0:
                s = s + _mul(r[i] * inv, pad_const)
            out[(i,) + idx] = s
    return np.moveaxis(out, 0, axis)


def _mul(q, v):
    """Fraction times (symbolic | float | complex) value."""
    if isinstance(v, (float, complex, np.floating, np.complexfloating)):
        return float(q) * v
    return q * v


# ----------------------------------------------------------------- configs
def configs(tier, seed):
    out = []
    lens = range(2, 6) if tier == 'quick' else range(2, 8)
    for method in METHODS:
        for pad in FWD_PADS + ADJ_PADS:
            for n in lens:
                if n < MIN_LEN.get(pad, 2):
                    continue
                dx = [0.5, 1.0, 2.0][n % 3]
                out.append(('fd/%s/%s/n=%d' % (method, pad, n),
                            dict(kind='fd', method=method, pad=pad, shape=[n], axis=0, dx=dx, dtype='float64')))
            shapes2 = [(2, 3), (3, 4)] if tier == 'quick' else list(itertools.product(range(2, 5), repeat=2))
            for shp in shapes2:
                for axis in (0, 1):
                    if shp[axis] < MIN_LEN.get(pad, 2):
                        continue
                    out.append(('fd/%s/%s/shape=%dx%d/axis=%d' % (method, pad, shp[0], shp[1], axis),
                                dict(kind='fd', method=method, pad=pad, shape=list(shp), axis=axis, dx=0.5,
                                     dtype='float64')))
            out.append(('fd/%s/%s/complex/n=4' % (method, pad),
                        dict(kind='fd', method=method, pad=pad, shape=[4], axis=0, dx=2.0, dtype='complex128')))
            for shp in ([(2, 3, 4)] if tier == 'quick' else [(2, 3, 4), (2, 3, 2), (3, 3, 3)]):
                if True:
                    for axis in range(3):
                        if shp[axis] < MIN_LEN.get(pad, 2):
                            continue
                        out.append(('fd/%s/%s/shape=%s/axis=%d' % (method, pad, 'x'.join(map(str, shp)), axis),
                                    dict(kind='fd', method=method, pad=pad, shape=list(shp), axis=axis, dx=2.0,
                                         dtype='float64')))
            if tier == 'thorough':
                out.append(('fd/%s/%s/float32/n=5' % (method, pad),
                            dict(kind='fd', method=method, pad=pad, shape=[5], axis=0, dx=1.0, dtype='float32')))
            # operators on discretized spaces
            for shp in ([(3,), (4,), (3, 4), (2, 3, 3)] if tier == 'quick' else
                        [(2,), (3,), (4,), (5,), (3, 4), (4, 3), (2, 3, 3), (3, 3, 3)]):
                if min(shp) < MIN_LEN.get(pad, 2) and len(shp) < 3:
                    continue
                if len(shp) == 3 and min(shp) < MIN_LEN.get(pad, 2):
                    shp = (3, 3, 3)
                    if tier == 'quick' and method != 'forward':
                        continue
                sid = 'x'.join(map(str, shp))
                out.append(('pd/%s/%s/shape=%s' % (method, pad, sid),
                            dict(kind='pd', method=method, pad=pad, shape=list(shp))))
                out.append(('grad/%s/%s/shape=%s' % (method, pad, sid),
                            dict(kind='grad', method=method, pad=pad, shape=list(shp))))
                out.append(('div/%s/%s/shape=%s' % (method, pad, sid),
                            dict(kind='div', method=method, pad=pad, shape=list(shp))))
    for pad in ('order1', 'order2'):
        out.append(('lap/%s/shape=4/refused-or-stencil' % pad, dict(kind='lap', method='forward', pad=pad, shape=[4])))
    # operators on grids with nodes on the boundary: the step is the real cell side
    for method in METHODS:
        for pad in ('constant', 'order1', 'periodic'):
            out.append(('pd/%s/%s/shape=4/nodes_on_bdry' % (method, pad),
                        dict(kind='pd-nob', method=method, pad=pad, shape=[4])))
            out.append(('pd/%s/%s/shape=3x4/nodes_on_bdry' % (method, pad),
                        dict(kind='pd-nob', method=method, pad=pad, shape=[3, 4])))
    for pad in ('constant', 'symmetric', 'symmetric_adjoint', 'periodic', 'order0', 'order0_adjoint'):
        for shp in ([(3,), (2, 3), (2, 3, 2)] if tier == 'quick' else
                    [(2,), (3,), (4,), (5,), (2, 3), (3, 3), (3, 4), (2, 3, 2)]):
            out.append(('lap/%s/shape=%s' % (pad, 'x'.join(map(str, shp))),
                        dict(kind='lap', method='forward', pad=pad, shape=list(shp))))
    # ---- every axis length at once (1-d): the length n and the examined position d are solver integers
    for method in METHODS:
        for pad in FWD_PADS + ADJ_PADS:
            if has_variant(method, pad):
                continue        # order-2 one-sided rows: recorded finding, asserted on the bounded family only
            out.append(('anylen/%s/%s' % (method, pad), dict(kind='anylen', method=method, pad=pad, shape=[0],
                                                              _settings={'max_paths': 400})))
    return out


def canaries(tier, seed):
    return [('canary/fd/forward/constant/n=4',
             dict(kind='fd', method='forward', pad='constant', shape=[4], axis=0, dx=0.5, dtype='float64')),
            ('canary/pd/central/order1/shape=3',
             dict(kind='pd', method='central', pad='order1', shape=[3])),
            ('canary/anylen/backward/periodic', dict(kind='anylen', method='backward', pad='periodic', shape=[0]))]


# ------------------------------------------------- any length (symbolic n)
def _ghost(j, n, pad):
    """Extended array entry E(j), -1 <= j <= n, as ([(coefficient, index)], coefficient of pad_const); j and n may
    be solver integers (the comparisons fork the path)."""
    if bool(j == -1):
        return {'constant': ([], 1), 'symmetric': ([(1, 0)], 0), 'order0': ([(1, 0)], 0),
                'periodic': ([(1, n - 1)], 0), 'order1': ([(2, 0), (-1, 1)], 0),
                'order2': ([(3, 0), (-3, 1), (1, 2)], 0)}[pad]
    if bool(j == n):
        return {'constant': ([], 1), 'symmetric': ([(1, n - 1)], 0), 'order0': ([(1, n - 1)], 0),
                'periodic': ([(1, 0)], 0), 'order1': ([(2, n - 1), (-1, n - 2)], 0),
                'order2': ([(3, n - 1), (-3, n - 2), (1, n - 3)], 0)}[pad]
    return [(1, j)], 0


def _row(i, n, method, pad):
    """Row i of the forward ghost-cell stencil: ([(coefficient, column)], coefficient of pad_const), step 1."""
    terms = {'forward': [(1, i + 1), (-1, i)], 'backward': [(1, i), (-1, i - 1)],
             'central': [(Fr(1, 2), i + 1), (Fr(-1, 2), i - 1)]}[method]
    pairs, k = [], 0
    for c, j in terms:
        ps, kk = _ghost(j, n, pad)
        pairs += [(c * cc, idx) for cc, idx in ps]
        k = k + c * kk
    return pairs, k


def _anylen(ctx, method, pad):
    n = ctx.integer('n', MIN_LEN.get(pad, 2), None, default=6)
    d = ctx.integer('d', 0, None, default=2)
    ctx.assume(d < n)
    f = ctx.uf('f', 1)
    g = ctx.uf('g', 1)
    c = ctx.real('c') if pad == 'constant' else 0
    dx = 0.5
    if ctx.sym:
        arr = LArr(n, lambda i: f(i))
        out = LArr(n, lambda i: g(i))
        real_np = diff_ops.np
        diff_ops.np = LProxy(real_np, g)
        try:
            res = diff_ops.finite_diff(arr, axis=0, dx=dx, method=method, pad_mode=pad, pad_const=c)
            got = res.at(d)
            ret = diff_ops.finite_diff(arr, axis=0, dx=dx, method=method, pad_mode=pad, pad_const=c, out=out)
            ctx.fact('returns-out', ret is out)
            got_out = out.at(d)
            unchanged = arr.at(d)
        finally:
            diff_ops.np = real_np
    else:
        arr = np.array([f(i) for i in range(n)], dtype=float)
        out = np.array([g(i) for i in range(n)], dtype=float)
        res = diff_ops.finite_diff(arr, axis=0, dx=dx, method=method, pad_mode=pad, pad_const=c)
        got = res[d]
        ret = diff_ops.finite_diff(arr, axis=0, dx=dx, method=method, pad_mode=pad, pad_const=c, out=out)
        ctx.fact('returns-out', ret is out)
        got_out = out[d]
        unchanged = arr[d]
    if not pad.endswith('_adjoint'):
        pairs, k = _row(d, n, method, pad)
        ref = sum((_mul(Fr(cc), f(idx)) for cc, idx in pairs), 0) + _mul(Fr(k), c) if k else \
            sum((_mul(Fr(cc), f(idx)) for cc, idx in pairs), 0)
    else:
        # minus the transpose of the forward rule with the adjoint method: column d of that matrix
        base, m = pad[:-len('_adjoint')], ADJ_METHOD[method]
        cands, rows = [d - 1, d, d + 1, 0, n - 1], []
        for i in cands:
            if not bool(i >= 0) or not bool(i < n):
                continue
            if any(bool(i == r) for r in rows):
                continue
            rows.append(i)
        ref = 0
        for i in rows:
            pairs, _ = _row(i, n, m, base)
            coef = sum((Fr(cc) for cc, idx in pairs if bool(idx == d)), Fr(0))
            if coef != 0:
                ref = ref + _mul(-coef, f(i))
    ref = ref * (1 / dx) if not isinstance(ref, Fr) else float(ref) / dx
    if ctx.canary:
        ref = ref + 1
    ctx.eq('stencil-at-any-position', got, ref)
    ctx.eq('stencil-inplace-at-any-position', got_out, ref)
    ctx.eq('input-unchanged', unchanged, f(d))


# -------------------------------------------------------------------- case
def _space(shape):
    # cell sides 1/2, 1/4, 2 (dyadic): max = shape * side
    sides = [0.5, 0.25, 2.0][:len(shape)]
    return odl.uniform_discr([0.0] * len(shape), [s * c for s, c in zip(shape, sides)], shape), sides


def case(ctx, kind, method, pad, shape, axis=0, dx=1.0, dtype='float64'):
    if kind == 'anylen':
        return _anylen(ctx, method, pad)
    shape = tuple(shape)
    ndim = len(shape)
    variant = has_variant(method, pad)

    def stencil(label, got, mk, canary=False):
        """got == mk('ghost') for all inputs; where a recorded alternative reading
        exists the weaker 'either reading' assertion stays live as well."""
        ref = mk('ghost')
        if canary and ctx.canary:
            ref = [v + 1 for v in flat(ref)]
        ctx.eq(label, got, ref)
        if variant:
            ctx.eq_any(label + '|either-reading', got, [ref, mk('onesided')])

    if kind == 'fd':
        f = ctx.array('f', shape, dtype)
        c = ctx.real('c') if pad == 'constant' else 0
        pre = ctx.snapshot(f).reshape(shape)

        def mk(v):
            return apply_ref(pre, axis, dx, method, pad, c, v)
        res = diff_ops.finite_diff(f, axis=axis, dx=dx, method=method, pad_mode=pad, pad_const=c)
        stencil('stencil', res, mk, canary=True)
        ctx.eq('input-unchanged', f, pre)
        out = ctx.array('o', shape, dtype, garbage=True)
        ret = diff_ops.finite_diff(f, axis=axis, dx=dx, method=method, pad_mode=pad, pad_const=c, out=out)
        ctx.fact('returns-out', ret is out)
        stencil('stencil-inplace', out, mk)
        return

    if kind == 'pd-nob':
        # nodes on the boundary: n nodes span the extent, the cell side is extent / (n - 1)
        sides = [0.5, 0.25][:ndim]
        space = odl.uniform_discr([0.0] * ndim, [(n - 1) * s_ for n, s_ in zip(shape, sides)], shape,
                                  nodes_on_bdry=True)
        ctx.fact('cell-sides-as-constructed', np.allclose(space.cell_sides, sides))
        for ax in range(ndim):
            c = ctx.real('c%d' % ax) if pad == 'constant' else 0
            x = ctx.element(space, 'x%d' % ax)
            pre = ctx.snapshot(x).reshape(shape)

            def mk(v, ax=ax, pre=pre, c=c):
                return apply_ref(pre, ax, sides[ax], method, pad, c, v)
            op = odl.PartialDerivative(space, axis=ax, method=method, pad_mode=pad, pad_const=c)
            stencil('stencil/axis%d' % ax, op(x), mk, canary=True)
        c = ctx.real('cg') if pad == 'constant' else 0
        xg = ctx.element(space, 'xg')
        preg = ctx.snapshot(xg).reshape(shape)
        stencil('gradient-stencil', odl.Gradient(space, method=method, pad_mode=pad, pad_const=c)(xg),
                lambda v: [apply_ref(preg, ax, sides[ax], method, pad, c, v) for ax in range(ndim)])
        return
    space, sides = _space(shape)
    if kind == 'pd':
        for ax in range(ndim):
            c = ctx.real('c%d' % ax) if pad == 'constant' else 0
            op = odl.PartialDerivative(space, axis=ax, method=method, pad_mode=pad, pad_const=c)
            x = ctx.element(space, 'x%d' % ax)
            pre = ctx.snapshot(x).reshape(shape)

            def mk(v, ax=ax, pre=pre, c=c):
                return apply_ref(pre, ax, sides[ax], method, pad, c, v)
            stencil('stencil/axis%d' % ax, op(x), mk, canary=True)
            ctx.eq('input-unchanged/axis%d' % ax, x, pre)
            y = ctx.garbage(space, 'g%d' % ax)
            ctx.fact('returns-out', op(x, out=y) is y)
            stencil('stencil-inplace/axis%d' % ax, y, mk)
            # derivative of the affine variant = zero-padding variant
            d = ctx.element(space, 'd%d' % ax)
            dpre = ctx.snapshot(d).reshape(shape)
            stencil('derivative/axis%d' % ax, op.derivative(x)(d),
                    lambda v, ax=ax, dpre=dpre: apply_ref(dpre, ax, sides[ax], method, pad, 0, v))
            # adjoint = transpose on the uniformly weighted space
            lin = odl.PartialDerivative(space, axis=ax, method=method, pad_mode=pad)
            yy = ctx.element(space, 'y%d' % ax)
            ctx.eq('adjoint-identity/axis%d' % ax, lin(x).inner(yy), x.inner(lin.adjoint(yy)))
            ctx.fact('adjoint-spaces', lin.adjoint.domain == lin.range and lin.adjoint.range == lin.domain)
        return
    if kind == 'grad':
        c = ctx.real('c') if pad == 'constant' else 0
        op = odl.Gradient(space, method=method, pad_mode=pad, pad_const=c)
        x = ctx.element(space, 'x')
        pre = ctx.snapshot(x).reshape(shape)

        def mk(v):
            return [apply_ref(pre, ax, sides[ax], method, pad, c, v) for ax in range(ndim)]
        stencil('stencil', op(x), mk, canary=True)
        ctx.eq('input-unchanged', x, pre)
        y = ctx.garbage(op.range, 'g')
        ctx.fact('returns-out', op(x, out=y) is y)
        stencil('stencil-inplace', y, mk)
        lin = odl.Gradient(space, method=method, pad_mode=pad)
        yy = ctx.element(lin.range, 'y')
        ctx.eq('adjoint-identity', lin(x).inner(yy), x.inner(lin.adjoint(yy)))
        # divergence is minus the adjoint of gradient (documented method/padding mapping)
        dv = odl.Divergence(range=space, method=ADJ_METHOD[method], pad_mode=diff_ops._ADJ_PADDING[pad])
        ctx.eq('div=-grad*', lin.adjoint(yy), [-v for v in flat(dv(yy))])
        d = ctx.element(space, 'd')
        dpre = ctx.snapshot(d).reshape(shape)
        stencil('derivative', op.derivative(x)(d),
                lambda v: [apply_ref(dpre, ax, sides[ax], method, pad, 0, v) for ax in range(ndim)])
        return
    if kind == 'div':
        c = ctx.real('c') if pad == 'constant' else 0
        op = odl.Divergence(range=space, method=method, pad_mode=pad, pad_const=c)
        x = ctx.element(op.domain, 'x')
        pres = [ctx.snapshot(p).reshape(shape) for p in x.parts]

        def mk(v):
            return sum(apply_ref(pres[ax], ax, sides[ax], method, pad, c, v) for ax in range(ndim))
        stencil('stencil', op(x), mk, canary=True)
        ctx.eq('input-unchanged', x, pres)
        y = ctx.garbage(space, 'g')
        ctx.fact('returns-out', op(x, out=y) is y)
        stencil('stencil-inplace', y, mk)
        lin = odl.Divergence(range=space, method=method, pad_mode=pad)
        yy = ctx.element(space, 'y')
        ctx.eq('adjoint-identity', lin(x).inner(yy), x.inner(lin.adjoint(yy)))
        d = ctx.element(op.domain, 'd')
        dpres = [ctx.snapshot(p).reshape(shape) for p in d.parts]
        stencil('derivative', op.derivative(x)(d),
                lambda v: sum(apply_ref(dpres[ax], ax, sides[ax], method, pad, 0, v) for ax in range(ndim)))
        return
    if kind == 'lap':
        c = ctx.real('c') if pad == 'constant' else 0
        try:
            op = odl.Laplacian(space, pad_mode=pad, pad_const=c)
        except ValueError:
            # a padding the Laplacian does not offer is refused at construction
            ctx.fact('padding-refused', pad in ('order1', 'order2', 'order1_adjoint', 'order2_adjoint'))
            return
        x = ctx.element(space, 'x')
        pre = ctx.snapshot(x).reshape(shape)

        def mk(v):
            ref = 0
            for ax in range(ndim):
                s2 = sides[ax] ** 2
                ref = ref + apply_ref(pre, ax, s2, 'forward', pad, c) - apply_ref(pre, ax, s2, 'backward', pad, c)
            return ref
        stencil('stencil', op(x), mk, canary=True)
        ctx.eq('input-unchanged', x, pre)
        y = ctx.garbage(space, 'g')
        ctx.fact('returns-out', op(x, out=y) is y)
        stencil('stencil-inplace', y, mk)
        lin = odl.Laplacian(space, pad_mode=pad)
        yy = ctx.element(space, 'y')
        ctx.eq('adjoint-identity', lin(x).inner(yy), x.inner(lin.adjoint(yy)))
        d = ctx.element(space, 'd')
        dpre = ctx.snapshot(d).reshape(shape)

        def mkd(v):
            ref = 0
            for ax in range(ndim):
                s2 = sides[ax] ** 2
                ref = ref + apply_ref(dpre, ax, s2, 'forward', pad, 0) - apply_ref(dpre, ax, s2, 'backward', pad, 0)
            return ref
        stencil('derivative', op.derivative(x)(d), mkd)
        return
    raise ValueError(kind)
