"""C01 — vector arithmetic is element-wise exact under every aliasing pattern.

Real code: LinearSpace.lincomb/multiply/divide + LinearSpaceElement operators ->
NumpyTensorSpace._lincomb -> _lincomb_impl (direct expression, fallback axpy/scal/copy, BLAS
regime with the real ravel/aliasing logic), ProductSpace._lincomb/_multiply/_divide,
DiscretizedSpace delegation, zero/one/copy/assign/set_zero.
Symbolic: all entries, the previous contents of out, the scalars a, b (so the
a==0 / a==1 / b==0 / b==1 / a+b==0 leaves are reached by forking)."""
import numpy as np
import odl
from odl.space import npy_tensors

from symnp.ctx import flat

EXPLANATION = ('C01: space.lincomb / multiply / divide and every arithmetic operator of elements are executed with '
               'solver variables as entries, as previous contents of the output and as scalars; on every path of '
               'the dispatch tree each output entry must equal the entry-wise formula over the pre-call values, '
               'non-output operands must keep their pre-call terms and the returned object must be out.  '
               'anysize/*: the kernel _lincomb_impl runs on 1-d data whose NUMBER OF ENTRIES is a solver integer '
               '(symnp/larr.py), so its size dispatch (THRESHOLD_SMALL, THRESHOLD_MEDIUM, dtype / contiguity / int32 '
               'guard of the BLAS path) and all 5 aliasing patterns are explored for every size at once; the entry '
               'at a symbolic position must equal a*x1[d] + b*x2[d] over the pre-call contents.')
T_S = npy_tensors.THRESHOLD_SMALL
T_M = npy_tensors.THRESHOLD_MEDIUM
BOUNDS = {
    'quick': {'anysize': 'kernel _lincomb_impl, 1-d contiguous float64 / int64 data: every size n >= 1 and position '
              '(unbounded integers), 5 aliasing patterns, all scalar case splits',
              'sizes': 'tensor sizes {1, 3, T_S-1, T_S, T_S+1} with T_S=%d read from the module; 2-d (10,10) C/F' % T_S,
              'alias_patterns': 5, 'dtypes': 'float64, float32, complex128, int64',
              'layouts': 'C, F, strided view, mixed C/F',
              'spaces': 'tensor, uniform_discr 1-d/2-d, rn(2) x rn(3), (rn(2)^2)^2'},
    'thorough': {'sizes': 'additionally {T_M-1, T_M, T_M+1} with T_M=%d (BLAS regime, stubs by contract)' % T_M},
}
OUTSIDE = ['floating-point rounding and overflow', 'sizes other than those straddling the thresholds for the public '
           'API, multi-dimensional / non-contiguous data and the derived operators (the 1-d contiguous kernel is '
           'decided for every size, including sizes above int32 max, by anysize/*)', 'non-NumPy impl']
ASSUMPTIONS = ['BLAS axpy/scal/copy replaced by contract stubs on the (possibly aliased) raveled arrays in the '
               'BLAS regime; validated against the real BLAS by the concrete shadow run of every path']
EXHAUSTIVE = True
SETTINGS = {'strict_definedness': False, 'max_paths': 600}
CFG_TIMEOUT = {'quick': 240, 'thorough': 1800}
PATTERNS = ('distinct', 'x1=x2', 'out=x1', 'out=x2', 'all')


def make_space(spec):
    kind = spec['space']
    dt = spec.get('dtype', 'float64')
    if kind == 'tensor':
        return odl.tensor_space(tuple(spec['shape']), dtype=dt)
    if kind == 'discr1':
        return odl.uniform_discr(0, 1, spec['shape'][0], dtype=dt)
    if kind == 'discr2':
        return odl.uniform_discr([0, 0], [1, 2], tuple(spec['shape']), dtype=dt)
    if kind == 'prod':
        return odl.ProductSpace(odl.rn(2), odl.rn(3))
    if kind == 'power2':
        return odl.ProductSpace(odl.ProductSpace(odl.rn(2), 2), 2)
    if kind == 'power3':
        return odl.ProductSpace(odl.rn(2), 3)
    if kind == 'wprod':
        return odl.ProductSpace(odl.rn(2), odl.uniform_discr(0, 1, 2))
    raise ValueError(kind)


def configs(tier, seed):
    out = []
    sizes = [1, 3, T_S - 1, T_S, T_S + 1]
    for dt in ('float64', 'complex128', 'int64', 'float32'):
        for n in sizes:
            if dt == 'float32' and n not in (3, T_S):
                continue
            for pat in PATTERNS:
                out.append(('lincomb/tensor/%s/n=%d/%s' % (dt, n, pat),
                            dict(kind='lincomb', space='tensor', shape=[n], dtype=dt, pattern=pat,
                                 _settings={'int_mode': dt == 'int64'})))
    for order in ('F', 'mixed', 'strided'):
        for pat in PATTERNS:
            out.append(('lincomb/tensor/float64/10x10/%s/%s' % (order, pat),
                        dict(kind='lincomb', space='tensor', shape=[10, 10], dtype='float64', pattern=pat,
                             order=order)))
            out.append(('lincomb/tensor/float64/2x3/%s/%s' % (order, pat),
                        dict(kind='lincomb', space='tensor', shape=[2, 3], dtype='float64', pattern=pat,
                             order=order)))
    for sp, shape in (('discr1', [3]), ('discr2', [2, 3]), ('discr1', [T_S]), ('prod', None), ('power2', None),
                      ('wprod', None)):
        for pat in PATTERNS:
            out.append(('lincomb/%s%s/%s' % (sp, '' if shape is None else '/' + 'x'.join(map(str, shape)), pat),
                        dict(kind='lincomb', space=sp, shape=shape, pattern=pat)))
    for sp, shape, dt in (('tensor', [3], 'float64'), ('tensor', [T_S], 'float64'), ('tensor', [3], 'complex128'),
                          ('tensor', [3], 'int64'), ('tensor', [T_S], 'int64'), ('discr2', [2, 2], 'float64'),
                          ('prod', None, 'float64'), ('power2', None, 'float64')):
        for pat in PATTERNS:
            out.append(('muldiv/%s/%s%s/%s' % (sp, dt, '' if shape is None else '/' + 'x'.join(map(str, shape)), pat),
                        dict(kind='muldiv', space=sp, shape=shape, dtype=dt, pattern=pat,
                             _settings={'int_mode': dt == 'int64'})))
        out.append(('ops/%s/%s%s' % (sp, dt, '' if shape is None else '/' + 'x'.join(map(str, shape))),
                    dict(kind='ops', space=sp, shape=shape, dtype=dt, _settings={'int_mode': dt == 'int64'})))
    # BLAS regime (>= T_M entries): generic scalars only in the quick tier (one path per configuration)
    for order in ('C', 'F', 'mixed'):
        for pat in ('distinct', 'out=x1', 'out=x2'):
            out.append(('lincomb/tensor/float64/251x200/%s/%s/generic-scalars' % (order, pat),
                        dict(kind='lincomb', space='tensor', shape=[251, 200], dtype='float64', pattern=pat,
                             order=order, scalars='generic')))
    # BLAS regime with more than one axis whose FIRST axis alone reaches T_M (len(x) != x.size)
    for pat in ('distinct', 'out=x2'):
        out.append(('lincomb/tensor/float64/%dx2/C/%s/generic-scalars' % (T_M, pat),
                    dict(kind='lincomb', space='tensor', shape=[T_M, 2], dtype='float64', pattern=pat,
                         order='C', scalars='generic')))
    for dt in ('longdouble', '>f8', 'float32', 'complex128'):
        for pat in ('distinct', 'out=x1'):
            out.append(('lincomb/tensor/%s/251x200/C/%s/generic-scalars' % (dt, pat),
                        dict(kind='lincomb', space='tensor', shape=[251, 200], dtype=dt, pattern=pat, order='C',
                             scalars='generic')))
    out.append(('nonfinite-operands', dict(kind='nonfinite', space='tensor', shape=[3])))
    # ---- every size at once: the number of entries is a solver integer (symnp/larr.py), so the size-regime dispatch
    # of _lincomb_impl (THRESHOLD_SMALL, THRESHOLD_MEDIUM, the int32 guard of the BLAS path) is explored for all n
    for dt in ('float64', 'int64'):
        for pat in PATTERNS:
            out.append(('anysize/lincomb/%s/%s' % (dt, pat),
                        dict(kind='anysize', space='tensor', dtype=dt, pattern=pat,
                             _settings={'int_mode': dt == 'int64', 'max_paths': 400})))
    out.append(('broadcast/power2', dict(kind='broadcast', space='power2', shape=None)))
    out.append(('broadcast/power3', dict(kind='broadcast', space='power3', shape=None)))
    if tier == 'thorough':
        for n in (T_M - 1, T_M, T_M + 1):
            for pat in PATTERNS:
                out.append(('lincomb/tensor/float64/n=%d/%s' % (n, pat),
                            dict(kind='lincomb', space='tensor', shape=[n], dtype='float64', pattern=pat)))
        for order in ('C', 'F', 'mixed'):
            for pat in ('distinct', 'out=x1', 'out=x2'):
                out.append(('lincomb/tensor/float64/251x200/%s/%s' % (order, pat),
                            dict(kind='lincomb', space='tensor', shape=[251, 200], dtype='float64', pattern=pat,
                                 order=order)))
        out.append(('lincomb/tensor/complex128/n=%d/distinct' % (T_M + 1),
                    dict(kind='lincomb', space='tensor', shape=[T_M + 1], dtype='complex128', pattern='distinct')))
    return out


def canaries(tier, seed):
    return [('canary/anysize', dict(kind='anysize', space='tensor', dtype='float64', pattern='out=x2')),
            ('canary/lincomb/tensor/n=3', dict(kind='lincomb', space='tensor', shape=[3], dtype='float64',
                                               pattern='out=x1')),
            ('canary/lincomb/tensor/n=%d' % T_S, dict(kind='lincomb', space='tensor', shape=[T_S],
                                                      dtype='float64', pattern='distinct'))]


def _elem(ctx, space, name, order='C', garbage=False):
    """Element with a prescribed memory layout (C, F or strided view of a larger buffer)."""
    if order == 'strided' and not hasattr(space, 'spaces') and not hasattr(space, 'tspace'):
        shp = tuple(space.shape)
        big = ctx.array(name, (2 * shp[0],) + shp[1:], space.dtype, garbage=garbage)
        return space.element_type(space, big[::2])
    return ctx.element(space, name, 'F' if order == 'F' else 'C', garbage)


def _scalar(ctx, space, name, dtype):
    k = np.dtype(dtype).kind
    if k == 'c':
        return ctx.cplx(name)
    if k in 'iu':
        return ctx.integer(name)
    return ctx.real(name)


class _Fake(object):
    """What _lincomb_impl uses of a tensor: .data (and .size)."""

    def __init__(self, data, size):
        self.data, self.size, self.dtype = data, size, data.dtype


def _anysize(ctx, dtype, pattern):
    from symnp.larr import LArr, LProxy
    import scipy.linalg
    bump = 1 if ctx.canary else 0
    n = ctx.integer('n', 1, None, default=7)
    d = ctx.integer('d', 0, None, default=3)
    ctx.assume(d < n)
    integer = dtype.startswith('int')
    a = ctx.integer('a') if integer else ctx.real('a')
    b = ctx.integer('b') if integer else ctx.real('b')
    if integer:
        # integer contents: an affine integer function of the index with arbitrary integer coefficients (every entry
        # is an arbitrary integer and neighbouring entries differ, which is all an entry-wise operation can observe)
        def aff(tag, du, dv):
            u, v = ctx.integer(tag + 'u', default=du), ctx.integer(tag + 'v', default=dv)
            return lambda i: u * i + v
        fp, fq, fg = aff('p', 2, 1), aff('q', -3, 5), aff('g', 7, -2)
    else:
        fp, fq, fg = ctx.uf('p', 1), ctx.uf('q', 1), ctx.uf('g', 1)
    if not ctx.sym and n > 200000:
        ctx.fact('size-too-large-for-a-concrete-run', True)
        return

    def mk(fn):
        if ctx.sym:
            return _Fake(LArr(n, lambda i, fn=fn: fn(i), dtype=dtype), n)
        vals = [fn(i) for i in range(n)]
        sp = odl.tensor_space(n, dtype=dtype)
        return sp.element(np.array(vals, dtype=dtype))
    x1 = mk(fp)
    c1 = fp
    if pattern in ('x1=x2', 'all'):
        x2, c2 = x1, c1
    else:
        x2, c2 = mk(fq), fq
    if pattern in ('out=x1', 'all'):
        out = x1
    elif pattern == 'out=x2':
        out = x2
    else:
        out = mk(fg)
    if ctx.sym:
        real_np = npy_tensors.np
        npy_tensors.np = LProxy(real_np, fg)
        try:
            npy_tensors._lincomb_impl(a, x1, b, x2, out)
        finally:
            npy_tensors.np = real_np
        got = out.data.at(d)
        keep1 = x1.data.at(d) if x1 is not out else None
        keep2 = x2.data.at(d) if x2 is not out else None
        e1, e2 = c1(d), c2(d)
    else:
        e1, e2 = x1.data[d].item(), x2.data[d].item()
        npy_tensors._lincomb_impl(a, x1, b, x2, out)
        got = out.data[d].item()
        keep1 = x1.data[d].item() if x1 is not out else None
        keep2 = x2.data[d].item() if x2 is not out else None
    ctx.eq('lincomb-entry-at-any-position', got, a * e1 + b * e2 + bump)
    if keep1 is not None:
        ctx.eq('x1-unchanged', keep1, e1)
    if keep2 is not None:
        ctx.eq('x2-unchanged', keep2, e2)


def case(ctx, kind, space, shape=None, dtype='float64', pattern='distinct', order='C', scalars='all'):
    if kind == 'anysize':
        return _anysize(ctx, dtype, pattern)
    sp = make_space(dict(space=space, shape=shape, dtype=dtype))
    bump = 1 if ctx.canary else 0
    o1 = order if order != 'mixed' else 'C'
    o2 = order if order != 'mixed' else 'F'

    def operands():
        x1 = _elem(ctx, sp, 'p', o1)
        x2 = x1 if pattern in ('x1=x2', 'all') else _elem(ctx, sp, 'q', o2)
        if pattern in ('out=x1', 'all'):
            out = x1
        elif pattern == 'out=x2':
            out = x2
        else:
            out = _elem(ctx, sp, 'g', o2 if order == 'mixed' else o1, garbage=True)
        return x1, x2, out

    if kind == 'lincomb':
        a = _scalar(ctx, sp, 'a', dtype)
        b = _scalar(ctx, sp, 'b', dtype)
        if scalars == 'generic':
            for v in (a, b, a + b):
                ctx.assume(v != 0)
                ctx.assume(v != 1)
        x1, x2, out = operands()
        p1, p2 = ctx.snapshot(x1), ctx.snapshot(x2)
        ret = sp.lincomb(a, x1, b, x2, out)
        ctx.fact('returns-out', ret is out)
        ctx.eq('lincomb', out, [a * u + b * v + bump for u, v in zip(p1, p2)])
        if out is not x1:
            ctx.eq('x1-unchanged', x1, p1)
        if out is not x2:
            ctx.eq('x2-unchanged', x2, p2)
        return
    if kind == 'muldiv':
        x1, x2, out = operands()
        p1, p2 = ctx.snapshot(x1), ctx.snapshot(x2)
        ret = sp.multiply(x1, x2, out)
        ctx.fact('multiply-returns-out', ret is out)
        ctx.eq('multiply', out, [u * v + bump for u, v in zip(p1, p2)])
        if out is not x1:
            ctx.eq('multiply-x1-unchanged', x1, p1)
        if out is not x2:
            ctx.eq('multiply-x2-unchanged', x2, p2)
        if np.dtype(dtype).kind in 'iu':
            return      # integer true division leaves the space: not part of the claim
        # divide on fresh operands (the previous call may have overwritten them)
        y1 = _elem(ctx, sp, 'r', o1)
        y2 = y1 if pattern in ('x1=x2', 'all') else _elem(ctx, sp, 's', o2)
        if pattern in ('out=x1', 'all'):
            yo = y1
        elif pattern == 'out=x2':
            yo = y2
        else:
            yo = _elem(ctx, sp, 'h', o1, garbage=True)
        q1, q2 = ctx.snapshot(y1), ctx.snapshot(y2)
        if len(q2) > 8:
            for v in q2:
                ctx.assume(v != 0)
        # (small spaces: zero divisors are explored too; the quotient is then undefined over the reals and
        #  excluded, but the previous contents of the output must still not show through)
        ret = sp.divide(y1, y2, yo)
        ctx.fact('divide-returns-out', ret is yo)
        ctx.eq('divide', yo, [u / v for u, v in zip(q1, q2)])
        if yo is not y1:
            ctx.eq('divide-x1-unchanged', y1, q1)
        if yo is not y2:
            ctx.eq('divide-x2-unchanged', y2, q2)
        return
    if kind == 'ops':
        isint = np.dtype(dtype).kind in 'iu'
        x = _elem(ctx, sp, 'x')
        y = _elem(ctx, sp, 'y')
        a = _scalar(ctx, sp, 'a', dtype)
        px, py = ctx.snapshot(x), ctx.snapshot(y)

        def same(label):
            ctx.eq(label + '/x-unchanged', x, px)
            ctx.eq(label + '/y-unchanged', y, py)
        ctx.eq('x+y', x + y, [u + v + bump for u, v in zip(px, py)])
        same('x+y')
        ctx.eq('x-y', x - y, [u - v for u, v in zip(px, py)])
        same('x-y')
        ctx.eq('x*y', x * y, [u * v for u, v in zip(px, py)])
        same('x*y')
        ctx.eq('a*x', a * x, [a * u for u in px])
        ctx.eq('x*a', x * a, [u * a for u in px])
        ctx.eq('-x', -x, [-u for u in px])
        ctx.eq('+x', +x, px)
        ctx.eq('x+a', x + a, [u + a for u in px])
        ctx.eq('a+x', a + x, [u + a for u in px])
        ctx.eq('x-a', x - a, [u - a for u in px])
        ctx.eq('a-x', a - x, [a - u for u in px])
        if space == 'tensor' and len(sp.shape) == 1 and sp.shape[0] <= 4 and not isint:
            # array-like operands that are not elements (nested lists): both operand orders
            lst = [2.0, -3.0, 0.5, 4.0][:sp.shape[0]]
            ctx.eq('list+x', lst + x, [l + u for l, u in zip(lst, px)])
            ctx.eq('x+list', x + lst, [u + l for l, u in zip(lst, px)])
            ctx.eq('list-x', lst - x, [l - u for l, u in zip(lst, px)])
            ctx.eq('x-list', x - lst, [u - l for l, u in zip(lst, px)])
            ctx.eq('list*x', lst * x, [l * u for l, u in zip(lst, px)])
            ctx.eq('x*list', x * lst, [u * l for l, u in zip(lst, px)])
            ctx.eq('x/list', x / lst, [u / l for l, u in zip(lst, px)])
            ctx.eq('tuple-x', tuple(lst) - x, [l - u for l, u in zip(lst, px)])
            same('array-like operands')
        if space in ('tensor', 'discr1', 'discr2') and sp.size <= 12:
            # ndarray operands of exactly the space's dtype and shape (element() wraps them without copying): the
            # result is a new element, the array keeps its contents, and doing it twice gives the same again
            r = ctx.array('r', sp.shape, dtype)
            pr = ctx.snapshot(r)
            forms = [('x+arr', lambda: x + r, lambda u, v: u + v), ('arr+x', lambda: r + x, lambda u, v: v + u),
                     ('x-arr', lambda: x - r, lambda u, v: u - v), ('arr-x', lambda: r - x, lambda u, v: v - u),
                     ('x*arr', lambda: x * r, lambda u, v: u * v), ('arr*x', lambda: r * x, lambda u, v: v * u)]
            for tag, f, ref in forms:
                for rnd in (1, 2):
                    got = f()
                    ctx.eq('%s/round%d' % (tag, rnd), got, [ref(u, v) for u, v in zip(px, pr)])
                    ctx.eq('%s/round%d/arr-unchanged' % (tag, rnd), r, pr)
                    if hasattr(got, 'space'):
                        ctx.fact('%s/round%d/result-is-an-element-of-the-space' % (tag, rnd), got in sp)
            same('ndarray operands')
        ctx.eq('x**2', x ** 2, [u * u for u in px])
        ctx.eq('x**3', x ** 3, [u * u * u for u in px])
        same('unary/scalar')
        z = sp.zero()
        ctx.eq('zero()', z, [0 * u for u in px])
        o = sp.one()
        ctx.eq('one()', o, [0 * u + 1 for u in px])
        c = x.copy()
        ctx.fact('copy-is-new', c is not x)
        ctx.eq('copy', c, px)
        c += y
        ctx.eq('copy-detached', x, px)
        ctx.eq('c+=y', c, [u + v for u, v in zip(px, py)])
        w = _elem(ctx, sp, 'w', garbage=True)
        w.assign(x)
        ctx.eq('assign', w, px)
        w -= y
        ctx.eq('w-=y', w, [u - v for u, v in zip(px, py)])
        w *= y
        ctx.eq('w*=y', w, [(u - v) * v for u, v in zip(px, py)])
        w *= a
        ctx.eq('w*=a', w, [(u - v) * v * a for u, v in zip(px, py)])
        w += a
        ctx.eq('w+=a', w, [(u - v) * v * a + a for u, v in zip(px, py)])
        same('in-place')
        w.set_zero()
        ctx.eq('set_zero', w, [0 * u for u in px])
        if not isint:
            for v in py:
                ctx.assume(v != 0)
            ctx.eq('x/y', x / y, [u / v for u, v in zip(px, py)])
            same('x/y')
            t = x.copy()
            t /= y
            ctx.eq('t/=y', t, [u / v for u, v in zip(px, py)])
            ctx.assume(a != 0)
            ctx.eq('x/a', x / a, [u / a for u in px])
            t = x.copy()
            t /= a
            ctx.eq('t/=a', t, [u / a for u in px])
            for v in px:
                ctx.assume(v != 0)
            ctx.eq('a/x', a / x, [a / u for u in px])
            same('division')
        return
    if kind == 'nonfinite':
        # concrete facts: derived arithmetic on operands with infinite entries equals the entry-wise result
        # (the single-operand forms are computed as a*x + 0*x in one size regime)
        from symnp import proxy
        proxy.STATE.armed = False
        import warnings
        for n in (3, T_S, T_S + 1):
            r = odl.rn(n)
            arr = np.arange(1.0, n + 1)
            arr[0] = np.inf
            arr[-1] = -np.inf
            x = r.element(arr)
            with np.errstate(all='ignore'):
                for tag, got, want in (('x*2', x * 2, arr * 2), ('-x', -x, -arr), ('x/2', x / 2, arr / 2),
                                       ('2*x', 2 * x, 2 * arr), ('x+x', x + x, arr + arr),
                                       ('copy', x.copy(), arr)):
                    ctx.fact('n=%d/%s' % (n, tag), np.array_equal(got.asarray(), want, equal_nan=True),
                             'got %s expected %s' % (got.asarray()[[0, -1]], want[[0, -1]]))
            # element-wise multiply / divide with both operands the same object, entries 0, +-inf, nan
            for sname, mk in (('rn', lambda n: odl.rn(n)), ('discr', lambda n: odl.uniform_discr(0, 1, n)),
                              ('prod', lambda n: odl.ProductSpace(odl.rn(n), 2))):
                spc = mk(n)
                base = np.arange(1.0, n + 1)
                base[0], base[1], base[-1] = 0.0, np.inf, np.nan
                full = base if sname != 'prod' else [base, base[::-1].copy()]
                want_full = np.concatenate([np.ravel(v) for v in full]) if sname == 'prod' else base
                with np.errstate(all='ignore'):
                    wq, wp = want_full / want_full, want_full * want_full
                    z = spc.element(full)
                    res = [('x/x', z / z, wq), ('x*x', z * z, wp), ('space.divide(x,x)', spc.divide(z, z), wq),
                           ('x.divide(x)', z.divide(z), wq), ('x.multiply(x)', z.multiply(z), wp)]
                    o = spc.element()
                    spc.divide(z, z, out=o)
                    res.append(('space.divide(x,x,out)', o, wq))
                    t = spc.element(full)
                    t /= t
                    res.append(('x/=x', t, wq))
                for tag, got, want in res:
                    g = np.concatenate([np.ravel(p_.asarray()) for p_ in got.parts]) if sname == 'prod' \
                        else np.ravel(got.asarray())
                    ctx.fact('n=%d/%s/%s' % (n, sname, tag), np.array_equal(g, want, equal_nan=True),
                             'got %s expected %s' % (g[:3], want[:3]))
        return
    if kind == 'broadcast':
        # power-space broadcasting: an element of the base space acts on every component
        x = ctx.element(sp, 'x')
        base = sp[0]
        v = ctx.element(base, 'v')
        a = ctx.real('a')
        px, pv = ctx.snapshot(x), ctx.snapshot(v)
        nrep = len(sp)
        rep = list(pv) * nrep
        ctx.eq('x+v', x + v, [u + w + bump for u, w in zip(px, rep)])
        nested = hasattr(base, 'spaces')
        if not nested:
            # reflected forms: documented "single layer" broadcasting; for a product-space base
            # the reflected operators are not offered (TypeError), which the property does not claim
            ctx.eq('v+x', v + x, [u + w for u, w in zip(px, rep)])
            ctx.eq('v*x', v * x, [u * w for u, w in zip(px, rep)])
        ctx.eq('x*v', x * v, [u * w for u, w in zip(px, rep)])
        ctx.eq('x-v', x - v, [u - w for u, w in zip(px, rep)])
        if not nested:
            ctx.eq('v-x', v - x, [w - u for u, w in zip(px, rep)])
        ctx.eq('x+a', x + a, [u + a for u in px])
        ctx.eq('x*a', x * a, [u * a for u in px])
        ctx.eq('x-unchanged', x, px)
        ctx.eq('v-unchanged', v, pv)
        y = x.copy()
        y += v
        ctx.eq('y+=v', y, [u + w for u, w in zip(px, rep)])
        y *= v
        ctx.eq('y*=v', y, [(u + w) * w for u, w in zip(px, rep)])
        ctx.eq('v-unchanged-2', v, pv)
        return
    raise ValueError(kind)
