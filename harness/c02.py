"""C02 — inner product, norm and distance obey their axioms and the documented weighting.

Real code: NumpyTensorSpaceConst/ArrayWeighting.inner/norm/dist, _inner_default (dot / vdot), _norm_default
(BLAS nrm2 stub / np.linalg.norm), _pnorm_default, _pnorm_diagweight, ProductSpaceConst/ArrayWeighting,
DiscretizedSpace._inner/_norm/_dist with boundary_cell_fractions / apply_on_boundary.
Symbolic: element entries (real and complex), scalars.  Weights: dyadic constants."""
import itertools
from fractions import Fraction as Fr

import numpy as np
import odl

from symnp.ctx import flat

EXPLANATION = ('C02: x.inner(y), x.norm(), x.dist(y) are executed on symbolic elements; z3 decides equality with the '
               'documented weighted sums (per-entry weights, component weights, cell-volume quadrature with boundary '
               'cell sizes taken from partition.cell_sizes_vecs), sqrt by its axiom r>=0, r*r=t, generic p by '
               'congruence of an uninterpreted pow; and the axioms (conjugate symmetry, linearity, positivity, '
               'definiteness, Cauchy-Schwarz, homogeneity, triangle inequality, dist = norm of difference, symmetry).')
BOUNDS = {'quick': {'sizes': '1-6 entries', 'layouts': 'C, F, mixed C/F (2-d)', 'weightings': 'none, constant, array',
                    'exponents': '2, 1, inf, 3/2, 3', 'nodes_on_bdry': 'all per-axis-side choices in 1-d, 4 choices '
                    'in 2-d', 'triangle inequality': 'p=2 for n<=2, p in {1,inf} for n<=3'},
          'thorough': {'sizes': 'up to 8 entries, one > THRESHOLD_MEDIUM configuration (tensordot branch)'}}
OUTSIDE = ['triangle inequality for generic p (Minkowski is not polynomial)', 'custom (callable) weightings',
           'floating-point rounding of frac**(1/p) beyond the 1e-9 box tolerance']
ASSUMPTIONS = ['pow(u, p) for non-integer p is uninterpreted (documented weighted p-norm checked by congruence)']
SETTINGS = {'max_paths': 300, 'tol': (1e-9, 2), 'obligation_timeout_ms': 30000}
CFG_TIMEOUT = {'quick': 240, 'thorough': 1200}

INF = float('inf')


# ------------------------------------------------------------------ spaces
def make_space(spec):
    k = spec['space']
    p = spec.get('p', 2.0)
    dt = spec.get('dtype', 'float64')
    w = spec.get('w')
    kw = {}
    if w == 'const':
        kw['weighting'] = 2.0
    elif w == 'array' and k == 'tensor':
        shape = tuple(spec['shape'])
        n = int(np.prod(shape))
        kw['weighting'] = np.array([1.0, 2.0, 4.0, 0.5, 8.0, 0.25, 1.0, 2.0][:n]).reshape(shape)
    if k == 'tensor':
        return odl.tensor_space(tuple(spec['shape']), dtype=dt, exponent=p, **kw)
    if k == 'discr':
        shape = tuple(spec['shape'])
        sides = [0.5, 0.25][:len(shape)]
        nob = spec.get('nob', False)
        if isinstance(nob, list):
            nob = [tuple(b) if isinstance(b, list) else b for b in nob]
            if len(shape) == 1:
                nob = nob[0]
        if spec.get('unitcell'):
            sides = [1.0] * len(shape)
        # extent chosen such that cell sides stay dyadic also with nodes on the boundary
        mx = []
        for i, (n, s) in enumerate(zip(shape, sides)):
            b = nob[i] if isinstance(nob, list) else nob
            bl, br = (b if isinstance(b, tuple) else (b, b))
            mx.append(s * (n - 0.5 * bl - 0.5 * br))
        return odl.uniform_discr([0.0] * len(shape), mx, shape, nodes_on_bdry=nob, dtype=dt, exponent=p)
    if k == 'prod':
        base = odl.rn(2, exponent=p) if dt == 'float64' else odl.cn(2, exponent=p)
        if w == 'const':
            return odl.ProductSpace(base, 2, weighting=2.0, exponent=p)
        if w == 'array':
            return odl.ProductSpace(base, 2, weighting=[1.0, 4.0], exponent=p)
        if spec.get('hetero'):
            return odl.ProductSpace(odl.rn(2), odl.rn(1, weighting=2.0), odl.uniform_discr(0, 1, 2), exponent=p)
        return odl.ProductSpace(base, 2, exponent=p)
    raise ValueError(k)


def entry_weights(space):
    """Documented p=2 / p-norm weight of every entry (flat C order) as exact fractions."""
    if hasattr(space, 'spaces'):
        w = space.weighting
        cw = [Fr(1)] * len(space)
        if hasattr(w, 'const'):
            cw = [Fr(float(w.const))] * len(space)
        elif hasattr(w, 'array'):
            cw = [Fr(float(v)) for v in w.array]
        out = []
        for c, s in zip(cw, space.spaces):
            out += [c * e for e in entry_weights(s)]
        return out
    if hasattr(space, 'partition'):
        vecs = space.partition.cell_sizes_vecs            # independent route through the code base
        out = []
        for idx in np.ndindex(*space.shape):
            v = Fr(1)
            for ax, i in enumerate(idx):
                v *= Fr(float(vecs[ax][i]))
            out.append(v)
        return out
    w = space.weighting
    n = int(space.size)
    if hasattr(w, 'array'):
        return [Fr(float(v)) for v in np.asarray(w.array).ravel()]
    return [Fr(float(getattr(w, 'const', 1.0)))] * n


def configs(tier, seed):
    out = []

    def add(cid, **spec):
        if spec.get('kind') in ('pnorm', 'paxioms'):
            spec['_settings'] = {'merge_abs': True}
        out.append((cid, spec))
    for dt in ('float64', 'complex128'):
        for w in (None, 'const', 'array'):
            add('tensor/%s/%s/n=1/p=2' % (dt, w), kind='all', space='tensor', shape=[1], dtype=dt, w=w)
            add('tensor/%s/%s/n=%d/p=2' % (dt, w, 3 if dt == 'float64' else 2), kind='all', space='tensor',
                shape=[3 if dt == 'float64' else 2], dtype=dt, w=w)
            for order in ('C', 'F', 'mixed'):
                add('tensor/%s/%s/2x2/%s/p=2' % (dt, w, order), kind='formula', space='tensor', shape=[2, 2], dtype=dt,
                    w=w, order=order)
                add('tensor/%s/%s/2x3/%s/p=2' % (dt, w, order), kind='formula-nodist', space='tensor', shape=[2, 3],
                    dtype=dt, w=w, order=order)
            for p in ((1.0, INF, 1.5, 3.0) if dt == 'float64' else (1.0, INF)):
                n = 3 if (dt == 'float64' or p != INF) else 2
                add('tensor/%s/%s/n=%d/p=%s' % (dt, w, n, p), kind='pnorm', space='tensor', shape=[n], dtype=dt, w=w,
                    p=p)
                if dt == 'float64' or p != INF:
                    add('tensor/%s/%s/2x2/mixed/p=%s' % (dt, w, p), kind='pnorm', space='tensor', shape=[2, 2],
                        dtype=dt, w=w, p=p, order='mixed')
            if dt == 'float64':
                for p in (1.0, INF):
                    add('tensor/%s/%s/n=2/p=%s/axioms' % (dt, w, p), kind='paxioms', space='tensor', shape=[2],
                        dtype=dt, w=w, p=p)
        for w in (None, 'const', 'array'):
            add('prod/%s/%s/p=2' % (dt, w), kind='all' if dt == 'float64' else 'formula', space='prod', dtype=dt, w=w)
            for p in ((1.0, INF) if dt == 'float64' else (1.0,)):
                add('prod/%s/%s/p=%s' % (dt, w, p), kind='pnorm', space='prod', dtype=dt, w=w, p=p)
    add('prod/hetero/p=2', kind='formula', space='prod', hetero=True)
    # discretized spaces: every nodes_on_bdry choice per side in 1-d, a selection in 2-d
    for nob in (False, True, [[True, False]], [[False, True]]):
        add('discr/float64/1d/n=3/nob=%s' % (nob,), kind='all', space='discr', shape=[3], dtype='float64', nob=nob)
        add('discr/complex128/1d/n=2/nob=%s' % (nob,), kind='formula', space='discr', shape=[2], dtype='complex128',
            nob=nob)
        add('discr/1d/n=2/nob=%s' % (nob,), kind='formula', space='discr', shape=[2], nob=nob)
        add('discr/1d/unit-cell/n=3/nob=%s' % (nob,), kind='formula', space='discr', shape=[3], nob=nob, unitcell=True)
        for p in (1.0, INF):
            add('discr/1d/n=3/nob=%s/p=%s' % (nob, p), kind='pnorm', space='discr', shape=[3], nob=nob, p=p)
    for nob in (False, True, [[True, False], [False, True]], [[False, False], [True, True]],
                [[True, True], [False, True]], [False, True]):
        add('discr/2d/2x3/nob=%s' % (nob,), kind='formula-nodist', space='discr', shape=[2, 3], nob=nob)
        add('discr/2d/2x2/complex/nob=%s' % (nob,), kind='formula-nodist', space='discr', shape=[2, 2], nob=nob,
            dtype='complex128')
    if tier == 'thorough':
        from odl.space import npy_tensors
        add('tensor/float64/None/n=T_M+1/p=2', kind='formula-nodist', space='tensor',
            shape=[npy_tensors.THRESHOLD_MEDIUM + 1], w=None)
        add('tensor/float64/const/251x200/mixed/p=2', kind='formula-nodist', space='tensor', shape=[251, 200],
            w='const', order='mixed')
    return out


def canaries(tier, seed):
    return [('canary/formula', dict(kind='formula', space='tensor', shape=[3], w='array')),
            ('canary/discr', dict(kind='formula', space='discr', shape=[3], nob=True))]


# ------------------------------------------------------------------ helpers
def _conj(v):
    return v.conjugate() if hasattr(v, 'conjugate') else v


def _abs2(v):
    c = v * _conj(v)
    return c.real if hasattr(c, 'real') and not isinstance(c, (float, int)) else c


def _absv(v):
    if isinstance(v, (complex, np.complexfloating)) or type(v).__name__ == 'SC':
        return abs(v)
    return abs(v)


def _elem(ctx, sp, name, order='C'):
    return ctx.element(sp, name, order)


def _pw(weight, p):
    """weight ** (1/p) of a dyadic weight, exactly where possible"""
    return float(weight) ** (1.0 / p)


def case(ctx, kind, space, shape=None, dtype='float64', w=None, p=2.0, order='C', nob=False, hetero=False,
         unitcell=False):
    spec = dict(space=space, shape=shape, dtype=dtype, w=w, p=p, nob=nob, hetero=hetero, unitcell=unitcell)
    sp = make_space(spec)
    cplx = dtype == 'complex128'
    o1 = 'F' if order == 'F' else 'C'
    o2 = 'F' if order in ('F', 'mixed') else 'C'
    x = _elem(ctx, sp, 'x', o1)
    y = _elem(ctx, sp, 'y', o2)
    px, py = list(ctx.snapshot(x)), list(ctx.snapshot(y))
    W = entry_weights(sp)
    bump = 1 if ctx.canary else 0

    if kind in ('formula', 'all', 'formula-nodist'):
        ref = sum((float(wi) * a * _conj(b) for wi, a, b in zip(W, px, py)), 0) + bump
        ctx.eq('inner=weighted-sum', x.inner(y), ref)
        n2 = sum((float(wi) * _abs2(a) for wi, a in zip(W, px)), 0)
        nx = x.norm()
        ctx.eq('norm^2=inner(x,x)', _sq(ctx, nx), n2)
        ctx.check('norm>=0', nx >= 0) if ctx.sym else ctx.fact('norm>=0', nx >= 0)
        ctx.eq('norm^2=x.inner(x)', _sq(ctx, nx), x.inner(x).real if cplx else x.inner(x))
        if kind != 'formula-nodist':
            d = x.dist(y)
            d2 = sum((float(wi) * _abs2(a - b) for wi, a, b in zip(W, px, py)), 0)
            ctx.eq('dist^2=norm(x-y)^2', _sq(ctx, d), d2)
            ctx.eq('dist-symmetric', _sq(ctx, d), _sq(ctx, y.dist(x)))
        ctx.eq('x-unchanged', x, px)
        ctx.eq('y-unchanged', y, py)
        # the constant function one has squared norm = total weight (= domain volume for discretized spaces)
        one = sp.one()
        total = sum(W)
        ctx.eq('|one|^2=total-weight', one.norm() ** 2, float(total), tol=1e-9)
        if hasattr(sp, 'partition'):
            ctx.fact('total-weight=domain-volume', abs(float(total) - float(sp.domain.volume)) < 1e-12,
                     'sum of cell sizes %s vs volume %s' % (float(total), sp.domain.volume))
    if kind == 'all':
        a = ctx.cplx('a') if cplx else ctx.real('a')
        z = _elem(ctx, sp, 'z')
        ixy = x.inner(y)
        ctx.eq('conjugate-symmetry', ixy, _conj(y.inner(x)))
        ctx.eq('linear-in-first-argument', (a * x + z).inner(y), a * ixy + z.inner(y))
        ixx = x.inner(x)
        ixx_r = ixx.real if cplx else ixx
        if ctx.sym:
            ctx.check('positivity', ixx_r >= 0)
            nz = None
            for v in px:
                c = (v != 0)
                nz = c if nz is None else (nz | c)
            ctx.check('definiteness', (~nz) | (ixx_r > 0))
        else:
            ctx.fact('positivity', ixx_r >= 0)
        if len(px) <= 3 and not cplx:
            iyy = y.inner(y)
            iyy_r = iyy.real if cplx else iyy
            ctx.le('cauchy-schwarz', _abs2(ixy), ixx_r * iyy_r, slack=0.0)
        # homogeneity and triangle inequality for p = 2
        nx = x.norm()
        nax = (a * x).norm()
        ctx.eq('homogeneity(p=2)', _sq(ctx, nax), _abs2(a) * _sq(ctx, nx))
        if len(px) <= 2 and not cplx:
            ctx.le('triangle(p=2)', (x + y).norm(), nx + y.norm(), slack=1e-9)
        return
    if kind in ('pnorm', 'paxioms'):
        nx = x.norm()
        if hasattr(sp, 'partition') and p == INF:
            ws = [1.0] * len(px)         # discretized spaces with exponent inf are unweighted
        else:
            ws = [float(wi) for wi in W]
        constw = (w == 'const' and space == 'tensor')
        if p == 1.0:
            ref = sum((wi * _absv(v) for wi, v in zip(ws, px)), 0) + bump
            ctx.eq('norm=weighted-1-norm', nx, ref)
        elif p == INF:
            # documented: constant weighting c -> c * max|x_i| ; array weighting -> max w_i |x_i|
            cand = [wi * _absv(v) for wi, v in zip(ws, px)]
            m = cand[0]
            for c in cand[1:]:
                if bool(c > m):
                    m = c
            ctx.eq('norm=weighted-max-norm', nx, m + bump)
        else:
            # generic p as documented: c^(1/p) * (sum |x_i|^p)^(1/p) for a constant weight,
            # (sum w_i |x_i|^p)^(1/p) for per-entry weights; pow is uninterpreted (congruence)
            if constw:
                ssum = sum(((_absv(v) ** p) for v in px), 0)
                ref = (ws[0] ** (1 / p)) * (ssum ** (1.0 / p))
            else:
                ssum = sum(((_absv(v) ** p) * wi for wi, v in zip(ws, px)), 0) if w == 'array' else \
                    sum(((_absv(v) ** p) for v in px), 0)
                ref = ssum ** (1.0 / p)
            ctx.eq('norm=weighted-p-norm', nx, ref + bump)
        if kind == 'pnorm':
            d = x.dist(y)
            ctx.eq('dist=norm(x-y)', d, (x - y).norm())
            ctx.eq('x-unchanged', x, px)
            return
        # axioms for the piecewise linear norms (n = 2)
        ny = y.norm()
        ctx.le('triangle(p=%s)' % p, (x + y).norm(), nx + ny, slack=1e-9)
        a = ctx.real('a')
        aa = a if bool(a >= 0) else -a
        ctx.eq('homogeneity(p=%s)' % p, (a * x).norm(), aa * nx)
        ctx.eq('dist-symmetric', x.dist(y), y.dist(x))
        return


def _sq(ctx, nx):
    """nx**2; symbolically the radicand of the code's own sqrt (no sqrt symbol in the goal)."""
    if ctx.sym and hasattr(nx, 't') and nx.t.op == 'app' and nx.t.val == 'sqrt':
        from symnp.scalars import SV
        return SV(nx.t.args[0])
    return nx * nx


def _pow_inverse(ctx, nx, p):
    """nx is pow(s, 1/p) symbolically; return the s it was built from (the code's own radicand).
    If the code did not produce pow(., 1/p) the term itself is returned and the comparison fails."""
    from symnp import terms as T
    from symnp.scalars import SV
    t = nx.t
    if t.op == 'app' and t.val == 'pow' and t.args[1].op == 'const' and abs(float(t.args[1].val) - 1.0 / p) < 1e-15:
        return SV(t.args[0])
    return nx
