"""C08 — functional, convex conjugate and their proximals are mutually consistent.

Real code: convex_conj of every built-in pair and every derived class (scalings, translation, linear/quadratic
perturbation, scalar sum, separable sum, infimal convolution, default conjugate), the values of f and f*, the
space's own inner product, and both proximals.  Symbolic: x, y.
Assertions: Fenchel-Young f(x) + f*(y) >= <x,y>; equality at y = grad f(x); f** = f (values and effective
domains); Moreau prox_{sigma f}(x) + sigma prox_{f*/sigma}(x/sigma) = x."""
import numpy as np
import odl
from odl.set.sets import Field

from harness import funcs
from symnp.ctx import flat
from symnp.scalars import EngineGap

EXPLANATION = ('C08: f(x), f.convex_conj(y), the inner product and both proximals are computed by the real code on '
               'symbolic x, y; z3 decides the Fenchel-Young inequality on every pair of paths with finite values, the '
               'Fenchel equality at y = grad f(x), f** = f (values where finite, equal effective domains per path) and '
               'the Moreau decomposition, for all x, y.')
BOUNDS = {'quick': {'dimension': 'n = 2 for smooth / simple functionals, n = 1 for derived piecewise ones',
                    'sigma': '1/2 (dyadic)', 'spaces': 'rn, array-weighted rn, uniform_discr, product spaces (n = 1)'}}
OUTSIDE = ['nuclear norm', 'Fenchel-Young by values for KL-type functionals (gradient relations and Moreau only)',
           'KL cross entropy proximals (Lambert W)', 'sqrt-based functionals by values beyond the stated dimension']
ASSUMPTIONS = ['np.finfo eps served as 0 (see C07)']
SETTINGS = {'strict_definedness': False, 'max_paths': 1200, 'tol': (1e-9, 4), 'obligation_timeout_ms': 20000, 'eps_zero': True}
CFG_TIMEOUT = {'quick': 300, 'thorough': 1200}

SKIP_VALUES = ('KullbackLeibler', 'KullbackLeibler/no-prior', 'KullbackLeiblerConvexConj',
               'KullbackLeiblerCrossEntropy', 'KullbackLeiblerCrossEntropyConvexConj', 'derived/KL*v')
SKIP_MOREAU = ('KullbackLeiblerCrossEntropy', 'KullbackLeiblerCrossEntropyConvexConj', 'IndicatorGroupL1UnitBall',
               'IndicatorLpUnitBall/2')
EXTRA = {
    'GroupL1Norm/p=1': lambda: odl.solvers.GroupL1Norm(odl.ProductSpace(odl.rn(1), 2), exponent=1),
    'GroupL1Norm/p=inf': lambda: odl.solvers.GroupL1Norm(odl.ProductSpace(odl.rn(1), 2), exponent=float('inf')),
    'IndicatorGroupL1UnitBall/p=1': lambda: odl.solvers.IndicatorGroupL1UnitBall(odl.ProductSpace(odl.rn(1), 2),
                                                                                   exponent=1),
    'IndicatorGroupL1UnitBall/p=inf': lambda: odl.solvers.IndicatorGroupL1UnitBall(odl.ProductSpace(odl.rn(1), 2),
                                                                                     exponent=float('inf')),
    'quadpert(L2sq,const-only)': lambda: odl.solvers.FunctionalQuadraticPerturb(
        odl.solvers.L2NormSquared(odl.rn(2)), constant=1.5),
    'quadpert(L1,const-only)': lambda: odl.solvers.FunctionalQuadraticPerturb(
        odl.solvers.L1Norm(odl.rn(1)), constant=-2.0),
    'quadpert(Huber,quad)': lambda: odl.solvers.FunctionalQuadraticPerturb(
        odl.solvers.Huber(odl.rn(1), 0.5), quadratic_coeff=0.5),
}


def configs(tier, seed):
    out = []
    for cid, rn, sk in funcs.instances(tier, harness='C08'):
        if sk == 'field':
            continue
        for kind in ('fenchel', 'biconj', 'moreau'):
            if kind in ('fenchel', 'biconj') and rn in SKIP_VALUES:
                continue
            if kind == 'fenchel' and tier == 'quick' and funcs.fby_name(rn).kind == 'sqrt':
                continue            # sqrt-based functionals by values (needs Cauchy-Schwarz with sqrt): thorough tier only
            if kind == 'fenchel' and tier == 'quick' and rn == 'IndicatorGroupL1UnitBall':
                continue
            if kind == 'moreau' and rn in SKIP_MOREAU:
                continue
            out.append(('%s/%s' % (kind, cid), dict(kind=kind, recipe=rn, sk=sk)))
    for name in sorted(EXTRA):
        for kind in ('fenchel', 'biconj', 'moreau'):
            out.append(('%s/extra/%s' % (kind, name), dict(kind=kind, recipe='extra:' + name)))
    return out


def canaries(tier, seed):
    return [('canary/fenchel/L2NormSquared', dict(kind='fenchel', recipe='L2NormSquared', sk='rn')),
            ('canary/moreau/L1Norm', dict(kind='moreau', recipe='L1Norm', sk='rn'))]


def finite(v):
    return not (isinstance(v, (float, np.floating)) and not np.isfinite(v))


def case(ctx, kind, recipe, sk=None):
    if recipe.startswith('extra:'):
        f = EXTRA[recipe[6:]]()
        pre = None
    else:
        r, f = funcs.build(ctx, recipe, sk, n=1 if 'pspace' in (sk or '') else None)
        pre = r.pre
    if isinstance(f.domain, Field):
        ctx.fact('field-domain', True)
        return
    try:
        fc = f.convex_conj
    except (NotImplementedError, ValueError):
        # not offered / documented refusal (non-positive scaling has no convex conjugate)
        ctx.fact('no-conjugate-offered', True)
        return
    X = f.domain
    bump = 1 if ctx.canary else 0
    if kind == 'fenchel':
        x = ctx.element(X, 'x')
        y = ctx.element(X, 'y')
        if pre is not None:
            pre(ctx, x)
        try:
            fx, fy = f(x), fc(y)
        except NotImplementedError:
            ctx.fact('values-not-implemented', True)
            return
        if finite(fx) and finite(fy):
            ctx.le('fenchel-young', x.inner(y) + bump, fx + fy, slack=1e-9)
        # equality at y = grad f(x)
        try:
            g = f.gradient(x)
        except NotImplementedError:
            return
        fg = fc(g)
        if finite(fx) and finite(fg):
            ctx.eq('fenchel-equality-at-gradient', fx + fg, x.inner(g))
        else:
            ctx.fact('conjugate-finite-at-gradient', finite(fg) or not finite(fx), 'f*(grad f(x)) = inf')
        return
    if kind == 'biconj':
        try:
            fcc = fc.convex_conj
        except NotImplementedError:
            ctx.fact('no-biconjugate-offered', True)
            return
        x = ctx.element(X, 'x')
        if pre is not None:
            pre(ctx, x)
        try:
            a, b = f(x), fcc(x)
        except NotImplementedError:
            ctx.fact('values-not-implemented', True)
            return
        ctx.fact('same-effective-domain', finite(a) == finite(b), 'f(x) finite: %s, f**(x) finite: %s' % (finite(a),
                                                                                                         finite(b)))
        if finite(a) and finite(b):
            ctx.eq('f**=f', b, a + bump)
        return
    if kind == 'moreau':
        sigma = 0.5
        try:
            P = f.proximal(sigma)
            Pc = fc.proximal(1.0 / sigma)
        except (NotImplementedError, ValueError):
            ctx.fact('no-proximal-pair-offered', True)
            return
        x = ctx.element(X, 'x')
        try:
            lhs = P(x) + sigma * Pc(x / sigma)
        except NotImplementedError:
            ctx.fact('no-proximal-pair-offered', True)
            return
        ctx.eq('moreau', lhs, flat(x) + bump)
        return
