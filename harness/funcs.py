"""Functional recipes shared by C07, C08, C09, C10 (and the functional part of C03/C04)."""
import numpy as np
import odl
from odl.solvers import functional as F   # noqa
import odl.solvers as S

from symnp.ctx import flat


def space(kind, n=2):
    if kind == 'rn':
        return odl.rn(n)
    if kind == 'crn':                       # constant weighting
        return odl.rn(n, weighting=2.0)
    if kind == 'arn':                       # array weighting
        return odl.rn(n, weighting=[1.0, 2.0, 4.0][:n])
    if kind == 'discr':                     # cell volume 1/4 (sqrt exact)
        return odl.uniform_discr(0, n / 4.0, n)
    if kind == 'pspace':
        return odl.ProductSpace(odl.rn(n), 2)
    if kind == 'dpspace':
        return odl.ProductSpace(odl.uniform_discr(0, n / 4.0, n), 2)
    if kind == 'wpspace':
        return odl.ProductSpace(odl.rn(n), 2, weighting=[1.0, 4.0])
    if kind == 'cpspace':
        return odl.ProductSpace(odl.rn(n), 2, weighting=2.0)
    if kind == 'rn1':
        return odl.rn(1)
    if kind == 'rn2x2':                     # more than one axis: len(x) != x.size
        return odl.rn((2, 2))
    if kind == 'discr2x2':
        return odl.uniform_discr([0, 0], [0.5, 1.0], (2, 2))
    raise ValueError(kind)


class FRecipe(object):
    def __init__(self, name, build, spaces, kind, classes=(), pre=None, n=2, note='', value=None, only=None):
        self.name, self.build, self.spaces, self.kind = name, build, spaces, kind
        self.classes, self.pre, self.n, self.note = tuple(classes), pre, n, note
        # value(ctx, sp, x): the documented value of the functional at x, computed independently of the derived-
        # functional classes (from the base functionals and the space's own inner product)
        self.value = value
        # only: harnesses (e.g. ('C03', 'C09')) the recipe is meant for; None = all.  Recipes whose values need the
        # uninterpreted pow primitive are not given to the optimality / conjugacy harnesses, which cannot decide them
        self.only = only


FRECIPES = []
DEF = 'odl.solvers.functional.default_functionals.'
FUN = 'odl.solvers.functional.functional.'
ALLS = ('rn', 'arn', 'discr')


def frecipe(name, spaces, kind, classes=(), **kw):
    """kind: 'pl' piecewise linear/quadratic (value oracle decidable), 'sqrt' (needs sqrt axioms),
    'trans' (transcendental: first-order oracle only), 'ind' indicator."""
    def deco(f):
        FRECIPES.append(FRecipe(name, f, spaces, kind, classes, **kw))
        return f
    return deco


def fby_name(name):
    for r in FRECIPES:
        if r.name == name:
            return r
    raise KeyError(name)


def creal(ctx, name, **kw):
    """ctx.real, created once per run (so that a recipe and its value oracle share the symbol)."""
    tab = ctx.__dict__.setdefault('_fsyms', {})
    if name not in tab:
        tab[name] = ctx.real(name, **kw)
    return tab[name]


def celem(ctx, sp, name):
    tab = ctx.__dict__.setdefault('_fsyms', {})
    if name not in tab:
        tab[name] = ctx.element(sp, name)
    return tab[name]


def _one_inner(sp, y):
    """<y, 1> in the space's own inner product (the weighted sum of the entries of y)."""
    return y.inner(sp.one())


def v_l1(sp, x):
    return _one_inner(sp, abs(x) if not hasattr(x, 'ufuncs') else x.ufuncs.absolute())


def v_l2sq(sp, x):
    return x.inner(x)


def v_huber(sp, x, gamma):
    """sum_i w_i h(x_i),  h(t) = t^2/(2 gamma) for |t| <= gamma, |t| - gamma/2 otherwise."""
    vals = []
    for t in flat(x):
        a = abs(t)
        vals.append(t * t / (2 * gamma) if a <= gamma else a - gamma / 2.0)
    return _one_inner(sp, sp.element(_arr(sp, vals)))


def _arr(sp, vals):
    import numpy as _np
    from symnp.scalars import is_symscalar
    if any(is_symscalar(v) for v in vals):
        from symnp.sarray import wrap
        a = _np.empty(len(vals), dtype=object)
        for i, v in enumerate(vals):
            a[i] = v
        return wrap(a.reshape(sp.shape), sp.dtype)
    return _np.array([float(v) for v in vals]).reshape(sp.shape)


def positive(ctx, x):
    for v in flat(x):
        ctx.assume(v > 0)


# --------------------------------------------------------------- built-ins
frecipe('L1Norm', ALLS + ('pspace',), 'pl', [DEF + 'L1Norm', DEF + 'LpNorm'],
        value=lambda ctx, sp, x: v_l1(sp, x) if not hasattr(sp, 'spaces') else None)(lambda ctx, sp: S.L1Norm(sp))
frecipe('L2NormSquared', ALLS + ('pspace', 'rn2x2', 'discr2x2'), 'pl', [DEF + 'L2NormSquared'],
        value=lambda ctx, sp, x: v_l2sq(sp, x))(lambda ctx, sp: S.L2NormSquared(sp))
frecipe('L2Norm', ALLS, 'sqrt', [DEF + 'L2Norm', DEF + 'LpNorm'])(lambda ctx, sp: S.L2Norm(sp))
frecipe('LinfNorm', ('rn', 'discr'), 'pl', [DEF + 'LpNorm'])(lambda ctx, sp: S.LpNorm(sp, float('inf')))
for _p in (3, 4, 6):
    frecipe('LpNorm/p=%d' % _p, ('rn', 'discr'), 'trans', [DEF + 'LpNorm'], note='values only (pow primitive)',
            only=('C03',))(
        lambda ctx, sp, _p=_p: S.LpNorm(sp, _p))
    frecipe('IndicatorLpUnitBall/%d' % _p, ('rn',), 'ind', [DEF + 'IndicatorLpUnitBall'],
            note='values only (pow primitive)', only=('C03',))(lambda ctx, sp, _p=_p: S.IndicatorLpUnitBall(sp, _p))
frecipe('GroupL1Norm', ('pspace', 'dpspace'), 'sqrt', [DEF + 'GroupL1Norm'])(lambda ctx, sp: S.GroupL1Norm(sp))
frecipe('GroupL1Norm/p=1', ('pspace',), 'pl', [DEF + 'GroupL1Norm'])(lambda ctx, sp: S.GroupL1Norm(sp, exponent=1))
frecipe('IndicatorGroupL1UnitBall', ('pspace',), 'ind', [DEF + 'IndicatorGroupL1UnitBall'])(
    lambda ctx, sp: S.IndicatorGroupL1UnitBall(sp))
frecipe('IndicatorLpUnitBall/inf', ('rn', 'discr'), 'ind', [DEF + 'IndicatorLpUnitBall'])(
    lambda ctx, sp: S.IndicatorLpUnitBall(sp, float('inf')))
frecipe('IndicatorLpUnitBall/2', ALLS, 'ind', [DEF + 'IndicatorLpUnitBall'])(
    lambda ctx, sp: S.IndicatorLpUnitBall(sp, 2))
frecipe('IndicatorLpUnitBall/1', ('rn',), 'ind', [DEF + 'IndicatorLpUnitBall'])(
    lambda ctx, sp: S.IndicatorLpUnitBall(sp, 1))
frecipe('Constant', ALLS, 'pl', [DEF + 'ConstantFunctional'], value=lambda ctx, sp, x: creal(ctx, 'c0'))(
    lambda ctx, sp: S.ConstantFunctional(sp, creal(ctx, 'c0')))
frecipe('Zero', ('rn', 'discr'), 'pl', [DEF + 'ZeroFunctional'])(lambda ctx, sp: S.ZeroFunctional(sp))
frecipe('Scaling', ('field',), 'pl', [DEF + 'ScalingFunctional'])(
    lambda ctx, sp: S.ScalingFunctional(odl.RealNumbers(), ctx.real('c0')))
frecipe('Identity', ('field',), 'pl', [DEF + 'IdentityFunctional'])(
    lambda ctx, sp: S.IdentityFunctional(odl.RealNumbers()))
frecipe('IndicatorBox', ALLS, 'ind', [DEF + 'IndicatorBox'])(
    lambda ctx, sp: S.IndicatorBox(sp, -1, 2))
frecipe('IndicatorBox/lower-only', ('rn',), 'ind', [DEF + 'IndicatorBox'])(
    lambda ctx, sp: S.IndicatorBox(sp, lower=-0.5))
frecipe('IndicatorBox/element-bounds', ('rn', 'discr'), 'ind', [DEF + 'IndicatorBox'])(
    lambda ctx, sp: S.IndicatorBox(sp, sp.element([-1.0, 0.0][:sp.size]), sp.element([0.5, 2.0][:sp.size])))
frecipe('IndicatorNonnegativity', ALLS, 'ind', [DEF + 'IndicatorNonnegativity'])(
    lambda ctx, sp: S.IndicatorNonnegativity(sp))
frecipe('IndicatorZero', ALLS, 'ind', [DEF + 'IndicatorZero'])(lambda ctx, sp: S.IndicatorZero(sp))
frecipe('IndicatorZero/const', ('rn',), 'ind', [DEF + 'IndicatorZero'])(
    lambda ctx, sp: S.IndicatorZero(sp, constant=1.5))
frecipe('KullbackLeibler', ('rn', 'discr'), 'trans', [DEF + 'KullbackLeibler'], pre=positive)(
    lambda ctx, sp: S.KullbackLeibler(sp, prior=sp.element([1.0, 2.0][:sp.size])))
frecipe('KullbackLeibler/no-prior', ('rn',), 'trans', [DEF + 'KullbackLeibler'], pre=positive)(
    lambda ctx, sp: S.KullbackLeibler(sp))
frecipe('KullbackLeiblerConvexConj', ('rn', 'discr'), 'trans', [DEF + 'KullbackLeiblerConvexConj'],
        pre=lambda ctx, x: [ctx.assume(v < 1) for v in flat(x)])(
    lambda ctx, sp: S.KullbackLeibler(sp, prior=sp.element([1.0, 2.0][:sp.size])).convex_conj)
frecipe('KullbackLeiblerCrossEntropy', ('rn', 'discr'), 'trans', [DEF + 'KullbackLeiblerCrossEntropy'], pre=positive)(
    lambda ctx, sp: S.KullbackLeiblerCrossEntropy(sp, prior=sp.element([1.0, 2.0][:sp.size])))
frecipe('KullbackLeiblerCrossEntropyConvexConj', ('rn', 'discr'), 'trans',
        [DEF + 'KullbackLeiblerCrossEntropyConvexConj'])(
    lambda ctx, sp: S.KullbackLeiblerCrossEntropy(sp, prior=sp.element([1.0, 2.0][:sp.size])).convex_conj)
frecipe('SeparableSum/L1+L2sq', ('rn', 'discr'), 'pl', [DEF + 'SeparableSum'], n=1)(
    lambda ctx, sp: S.SeparableSum(S.L1Norm(sp), S.L2NormSquared(sp)))
# summands of the same class (and domain) that differ only in their parameters
frecipe('SeparableSum/2*L2sq+0.5*L2sq', ('rn', 'discr'), 'pl', [DEF + 'SeparableSum'], n=1)(
    lambda ctx, sp: S.SeparableSum(2.0 * S.L2NormSquared(sp), 0.5 * S.L2NormSquared(sp)))
frecipe('SeparableSum/L1+2*L2sq+0.5*L2sq', ('rn',), 'pl', [DEF + 'SeparableSum'], n=1)(
    lambda ctx, sp: S.SeparableSum(S.L1Norm(sp), 2.0 * S.L2NormSquared(sp), 0.5 * S.L2NormSquared(sp)))
frecipe('SeparableSum/L1.translated(a)+L1.translated(b)', ('rn',), 'pl', [DEF + 'SeparableSum'], n=1)(
    lambda ctx, sp: S.SeparableSum(S.L1Norm(sp).translated(sp.element([1.5])),
                                   S.L1Norm(sp).translated(sp.element([-0.5]))))
frecipe('SeparableSum/Huber(0.5)+Huber(2)', ('rn',), 'pl', [DEF + 'SeparableSum'], n=1)(
    lambda ctx, sp: S.SeparableSum(S.Huber(sp, 0.5), S.Huber(sp, 2.0)))
# a summand with a finite gradient Lipschitz constant FIRST, one without a (finite) constant second
frecipe('SeparableSum/L2sq+L1', ('rn',), 'pl', [DEF + 'SeparableSum'], n=1)(
    lambda ctx, sp: S.SeparableSum(S.L2NormSquared(sp), S.L1Norm(sp)))
frecipe('SeparableSum/Huber+KL', ('rn',), 'trans', [DEF + 'SeparableSum'], n=1, only=('C03', 'C09'),
        pre=lambda ctx, x: [ctx.assume(v > 0) for v in flat(x.parts[1])])(
    lambda ctx, sp: S.SeparableSum(S.Huber(sp, 0.5), S.KullbackLeibler(sp, prior=sp.element([2.0]))))
frecipe('SeparableSum/power', ('rn',), 'pl', [DEF + 'SeparableSum'], n=1)(
    lambda ctx, sp: S.SeparableSum(S.L1Norm(sp), 2))
frecipe('QuadraticForm/op+vec', ('rn',), 'pl', [DEF + 'QuadraticForm'],
        value=lambda ctx, sp, x: x.inner(odl.MatrixOperator(np.array([[2.0, 0.5], [0.5, 1.0]]), domain=sp, range=sp)(x))
        + x.inner(sp.element([1.0, -2.0])) + 0.5)(
    lambda ctx, sp: S.QuadraticForm(
        operator=odl.MatrixOperator(np.array([[2.0, 0.5], [0.5, 1.0]]), domain=sp, range=sp),
        vector=sp.element([1.0, -2.0]), constant=0.5))
frecipe('QuadraticForm/vec-only', ('rn',), 'pl', [DEF + 'QuadraticForm'],
        value=lambda ctx, sp, x: x.inner(sp.element([1.0, -2.0])) + creal(ctx, 'c0'))(
    lambda ctx, sp: S.QuadraticForm(vector=sp.element([1.0, -2.0]), constant=creal(ctx, 'c0')))
frecipe('QuadraticForm/scaling-op', ('rn', 'discr'), 'pl', [DEF + 'QuadraticForm'],
        value=lambda ctx, sp, x: 3.0 * x.inner(x) + x.inner(sp.one()))(
    lambda ctx, sp: S.QuadraticForm(operator=odl.ScalingOperator(sp, 3.0), vector=sp.one()))
frecipe('Huber', ALLS, 'pl', [DEF + 'Huber'], value=lambda ctx, sp, x: v_huber(sp, x, 0.5))(
    lambda ctx, sp: S.Huber(sp, gamma=0.5))
frecipe('Huber/pspace', ('pspace', 'wpspace', 'cpspace'), 'sqrt', [DEF + 'Huber'])(lambda ctx, sp: S.Huber(sp, gamma=0.5))
frecipe('GroupL1Norm/weighted', ('wpspace', 'cpspace'), 'sqrt', [DEF + 'GroupL1Norm'])(lambda ctx, sp: S.GroupL1Norm(sp))
frecipe('L2NormSquared/wpspace', ('wpspace', 'cpspace'), 'pl', [DEF + 'L2NormSquared'])(lambda ctx, sp: S.L2NormSquared(sp))
frecipe('L1Norm/wpspace', ('wpspace',), 'pl', [DEF + 'L1Norm'])(lambda ctx, sp: S.L1Norm(sp))
frecipe('IndicatorSimplex', ('rn',), 'ind', [DEF + 'IndicatorSimplex'])(lambda ctx, sp: S.IndicatorSimplex(sp))
frecipe('IndicatorSimplex/diam2', ('rn',), 'ind', [DEF + 'IndicatorSimplex'])(
    lambda ctx, sp: S.IndicatorSimplex(sp, diameter=2))
frecipe('IndicatorSumConstraint', ('rn', 'rn2x2', 'discr2x2'), 'ind', [DEF + 'IndicatorSumConstraint'])(
    lambda ctx, sp: S.IndicatorSumConstraint(sp))
frecipe('IndicatorSumConstraint/value=3', ('rn', 'rn2x2'), 'ind', [DEF + 'IndicatorSumConstraint'])(
    lambda ctx, sp: S.IndicatorSumConstraint(sp, sum_value=3.0))
frecipe('MoreauEnvelope/L1', ('rn', 'discr'), 'pl', [DEF + 'MoreauEnvelope'], n=1)(
    lambda ctx, sp: S.MoreauEnvelope(S.L1Norm(sp), sigma=0.5))
frecipe('Rosenbrock', ('rn',), 'pl', ['odl.solvers.functional.example_funcs.RosenbrockFunctional'])(
    lambda ctx, sp: S.RosenbrockFunctional(sp))
frecipe('Rosenbrock/n=3/scale=2', ('rn',), 'pl', ['odl.solvers.functional.example_funcs.RosenbrockFunctional'], n=3)(
    lambda ctx, sp: S.RosenbrockFunctional(sp, scale=2.0))
frecipe('Rosenbrock/n=4/scale=0.5', ('rn',), 'pl', ['odl.solvers.functional.example_funcs.RosenbrockFunctional'], n=4)(
    lambda ctx, sp: S.RosenbrockFunctional(sp, scale=0.5))

# --------------------------------------------------------- derived functionals
frecipe('derived/2*L1', ALLS, 'pl', [FUN + 'FunctionalLeftScalarMult'], n=1,
        value=lambda ctx, sp, x: 2.0 * v_l1(sp, x))(lambda ctx, sp: 2.0 * S.L1Norm(sp))
frecipe('derived/a*L1', ('rn',), 'pl', [FUN + 'FunctionalLeftScalarMult'], n=1,
        value=lambda ctx, sp, x: creal(ctx, 'c0', pos=True) * v_l1(sp, x))(
    lambda ctx, sp: creal(ctx, 'c0', pos=True) * S.L1Norm(sp))
frecipe('derived/a*L2sq', ('rn', 'discr'), 'pl', [FUN + 'FunctionalLeftScalarMult'],
        value=lambda ctx, sp, x: creal(ctx, 'c0', pos=True) * v_l2sq(sp, x))(
    lambda ctx, sp: creal(ctx, 'c0', pos=True) * S.L2NormSquared(sp))
frecipe('derived/(-3)*L2sq', ('rn', 'discr'), 'pl', [FUN + 'FunctionalLeftScalarMult'],
        value=lambda ctx, sp, x: -3.0 * v_l2sq(sp, x))(
    lambda ctx, sp: (-3.0) * S.L2NormSquared(sp))
frecipe('derived/L2sq-Huber', ('rn',), 'pl', [FUN + 'FunctionalSum'], n=1,
        value=lambda ctx, sp, x: v_l2sq(sp, x) - v_huber(sp, x, 0.5))(
    lambda ctx, sp: S.L2NormSquared(sp) - S.Huber(sp, 0.5))
frecipe('derived/a*Huber/any-sign', ('rn',), 'pl', [FUN + 'FunctionalLeftScalarMult'], n=1,
        value=lambda ctx, sp, x: creal(ctx, 'c0', nonzero=True) * v_huber(sp, x, 0.5))(
    lambda ctx, sp: creal(ctx, 'c0', nonzero=True) * S.Huber(sp, 0.5))
# nested scalings (merged internally into one factor), differences and negations of scaled functionals
frecipe('derived/2*(3*L2sq)', ('rn', 'discr'), 'pl', [FUN + 'FunctionalLeftScalarMult'],
        value=lambda ctx, sp, x: 6.0 * v_l2sq(sp, x))(lambda ctx, sp: 2.0 * (3.0 * S.L2NormSquared(sp)))
frecipe('derived/a*(b*L2sq)', ('rn',), 'pl', [FUN + 'FunctionalLeftScalarMult'],
        value=lambda ctx, sp, x: creal(ctx, 'c0', nonzero=True) * creal(ctx, 'c1', nonzero=True) * v_l2sq(sp, x))(
    lambda ctx, sp: creal(ctx, 'c0', nonzero=True) * (creal(ctx, 'c1', nonzero=True) * S.L2NormSquared(sp)))
frecipe('derived/0.5*(4*Huber)', ('rn',), 'pl', [FUN + 'FunctionalLeftScalarMult'], n=1,
        value=lambda ctx, sp, x: 2.0 * v_huber(sp, x, 0.5))(lambda ctx, sp: 0.5 * (4.0 * S.Huber(sp, 0.5)))
frecipe('derived/L2sq-3*Huber', ('rn',), 'pl', [FUN + 'FunctionalSum'], n=1,
        value=lambda ctx, sp, x: v_l2sq(sp, x) - 3.0 * v_huber(sp, x, 0.5))(
    lambda ctx, sp: S.L2NormSquared(sp) - 3.0 * S.Huber(sp, 0.5))
frecipe('derived/-(3*L2sq)', ('rn',), 'pl', [FUN + 'FunctionalLeftScalarMult'],
        value=lambda ctx, sp, x: -3.0 * v_l2sq(sp, x))(lambda ctx, sp: -(3.0 * S.L2NormSquared(sp)))
frecipe('derived/(L2sq*2)*3', ('rn', 'discr'), 'pl', [FUN + 'FunctionalRightScalarMult'],
        value=lambda ctx, sp, x: 36.0 * v_l2sq(sp, x))(lambda ctx, sp: (S.L2NormSquared(sp) * 2.0) * 3.0)
frecipe('derived/(L1.translated*a)*b', ('rn',), 'pl', [FUN + 'FunctionalRightScalarMult'], n=1,
        value=lambda ctx, sp, x: v_l1(sp, creal(ctx, 'c0', nonzero=True) * creal(ctx, 'c1', nonzero=True) * x
                                      - sp.element([1.5][:sp.size])))(
    lambda ctx, sp: (S.L1Norm(sp).translated(sp.element([1.5][:sp.size])) * creal(ctx, 'c0', nonzero=True))
    * creal(ctx, 'c1', nonzero=True))
frecipe('derived/2*(L2sq*3)', ('rn',), 'pl', [FUN + 'FunctionalLeftScalarMult'],
        value=lambda ctx, sp, x: 18.0 * v_l2sq(sp, x))(lambda ctx, sp: 2.0 * (S.L2NormSquared(sp) * 3.0))
frecipe('derived/QuadraticForm(vec,const)*s', ('rn',), 'pl', [FUN + 'FunctionalRightScalarMult'],
        value=lambda ctx, sp, x: creal(ctx, 'c1', nonzero=True) * x.inner(sp.element([1.0, -2.0])) + creal(ctx, 'c0'))(
    lambda ctx, sp: S.QuadraticForm(vector=sp.element([1.0, -2.0]), constant=creal(ctx, 'c0'))
    * creal(ctx, 'c1', nonzero=True))
frecipe('derived/s*QuadraticForm(vec,const)', ('rn',), 'pl', [FUN + 'FunctionalLeftScalarMult'],
        value=lambda ctx, sp, x: creal(ctx, 'c1', nonzero=True) * (x.inner(sp.element([1.0, -2.0])) + creal(ctx, 'c0')))(
    lambda ctx, sp: creal(ctx, 'c1', nonzero=True)
    * S.QuadraticForm(vector=sp.element([1.0, -2.0]), constant=creal(ctx, 'c0')))
frecipe('derived/QuadraticForm(vec)*s', ('rn',), 'pl', [FUN + 'FunctionalRightScalarMult'],
        value=lambda ctx, sp, x: creal(ctx, 'c1', nonzero=True) * x.inner(sp.element([1.0, -2.0])))(
    lambda ctx, sp: S.QuadraticForm(vector=sp.element([1.0, -2.0])) * creal(ctx, 'c1', nonzero=True))
frecipe('derived/L1*2', ALLS, 'pl', [FUN + 'FunctionalRightScalarMult'], n=1,
        value=lambda ctx, sp, x: v_l1(sp, 2.0 * x))(lambda ctx, sp: S.L1Norm(sp) * 2.0)
frecipe('derived/L2sq*a', ('rn', 'discr'), 'pl', [FUN + 'FunctionalRightScalarMult'],
        value=lambda ctx, sp, x: v_l2sq(sp, creal(ctx, 'c0', nonzero=True) * x))(
    lambda ctx, sp: S.L2NormSquared(sp) * creal(ctx, 'c0', nonzero=True))
frecipe('derived/Huber*(-2)', ('rn',), 'pl', [FUN + 'FunctionalRightScalarMult'], n=1,
        value=lambda ctx, sp, x: v_huber(sp, -2.0 * x, 0.5))(
    lambda ctx, sp: S.Huber(sp, 0.5) * (-2.0))
frecipe('derived/Nonneg*(-1)', ('rn', 'discr'), 'ind', [FUN + 'FunctionalRightScalarMult'], n=1)(
    lambda ctx, sp: S.IndicatorNonnegativity(sp) * (-1.0))
frecipe('derived/Box*(-2)', ('rn',), 'ind', [FUN + 'FunctionalRightScalarMult'], n=1)(
    lambda ctx, sp: S.IndicatorBox(sp, -1, 2) * (-2.0))
frecipe('derived/L1.translated*(-1)', ('rn',), 'pl', [FUN + 'FunctionalRightScalarMult'], n=1)(
    lambda ctx, sp: S.L1Norm(sp).translated(sp.element([1.5][:sp.size])) * (-1.0))
frecipe('derived/L1.translated*a', ('rn',), 'pl', [FUN + 'FunctionalRightScalarMult'], n=1,
        value=lambda ctx, sp, x: v_l1(sp, creal(ctx, 'c0', nonzero=True) * x - sp.element([1.5][:sp.size])))(
    lambda ctx, sp: S.L1Norm(sp).translated(sp.element([1.5][:sp.size])) * creal(ctx, 'c0', nonzero=True))
frecipe('derived/L1.translated', ALLS, 'pl', [FUN + 'FunctionalTranslation'], n=1,
        value=lambda ctx, sp, x: v_l1(sp, x - celem(ctx, sp, 't')))(
    lambda ctx, sp: S.L1Norm(sp).translated(celem(ctx, sp, 't')))
frecipe('derived/L2sq.translated', ('rn', 'discr'), 'pl', [FUN + 'FunctionalTranslation'],
        value=lambda ctx, sp, x: v_l2sq(sp, x - celem(ctx, sp, 't')))(
    lambda ctx, sp: S.L2NormSquared(sp).translated(celem(ctx, sp, 't')))
frecipe('derived/Box.translated', ('rn',), 'ind', [FUN + 'FunctionalTranslation'], n=1)(
    lambda ctx, sp: S.IndicatorBox(sp, -1, 2).translated(ctx.element(sp, 't')))
frecipe('derived/L1+c', ('rn', 'discr'), 'pl', [FUN + 'FunctionalScalarSum'], n=1,
        value=lambda ctx, sp, x: v_l1(sp, x) + creal(ctx, 'c0'))(
    lambda ctx, sp: S.L1Norm(sp) + creal(ctx, 'c0'))
frecipe('derived/L2sq+L1', ('rn', 'discr'), 'pl', [FUN + 'FunctionalSum'], n=1,
        value=lambda ctx, sp, x: v_l2sq(sp, x) + v_l1(sp, x))(
    lambda ctx, sp: S.L2NormSquared(sp) + S.L1Norm(sp))
frecipe('derived/L2sq+Huber', ('rn',), 'pl', [FUN + 'FunctionalSum'], n=1,
        value=lambda ctx, sp, x: v_l2sq(sp, x) + v_huber(sp, x, 0.5))(
    lambda ctx, sp: S.L2NormSquared(sp) + S.Huber(sp, 0.5))
frecipe('derived/L2sq*v', ('rn', 'discr'), 'pl', [FUN + 'FunctionalRightVectorMult'],
        value=lambda ctx, sp, x: v_l2sq(sp, sp.element([2.0, -0.5][:sp.size]) * x))(
    lambda ctx, sp: S.L2NormSquared(sp) * sp.element([2.0, -0.5][:sp.size]))
frecipe('derived/L1*v', ('rn',), 'pl', [FUN + 'FunctionalRightVectorMult'], n=1,
        value=lambda ctx, sp, x: v_l1(sp, sp.element([2.0, -0.5][:sp.size]) * x))(
    lambda ctx, sp: S.L1Norm(sp) * sp.element([2.0, -0.5][:sp.size]))
frecipe('derived/QuadraticForm*v', ('rn',), 'pl', [FUN + 'FunctionalRightVectorMult'])(
    lambda ctx, sp: S.QuadraticForm(
        operator=odl.MatrixOperator(np.array([[2.0, 0.5], [0.5, 1.0]]), domain=sp, range=sp),
        vector=sp.element([1.0, -2.0])) * sp.element([2.0, -0.5]))
frecipe('derived/QuadraticForm(op-only)*v', ('rn',), 'pl', [FUN + 'FunctionalRightVectorMult'],
        value=lambda ctx, sp, x: (sp.element([2.0, -0.5]) * x).inner(
            odl.MatrixOperator(np.array([[2.0, 0.5], [0.5, 1.0]]), domain=sp, range=sp)(sp.element([2.0, -0.5]) * x)))(
    lambda ctx, sp: S.QuadraticForm(
        operator=odl.MatrixOperator(np.array([[2.0, 0.5], [0.5, 1.0]]), domain=sp, range=sp))
    * sp.element([2.0, -0.5]))
frecipe('derived/QuadraticForm(op-only)*t', ('rn',), 'pl', [FUN + 'FunctionalRightVectorMult'], only=('C03', 'C09'))(
    lambda ctx, sp: S.QuadraticForm(
        operator=odl.MatrixOperator(np.array([[2.0, 0.5], [0.5, 1.0]]), domain=sp, range=sp))
    * celem(ctx, sp, 't'))
frecipe('derived/L2Norm*v', ('rn', 'discr'), 'sqrt', [FUN + 'FunctionalRightVectorMult'])(
    lambda ctx, sp: S.L2Norm(sp) * sp.element([2.0, -0.5]))
frecipe('derived/Rosenbrock*v', ('rn',), 'pl', [FUN + 'FunctionalRightVectorMult'])(
    lambda ctx, sp: S.RosenbrockFunctional(sp) * ctx.element(sp, 't'))
frecipe('derived/KL*v', ('rn',), 'trans', [FUN + 'FunctionalRightVectorMult'], pre=positive)(
    lambda ctx, sp: S.KullbackLeibler(sp, prior=sp.element([1.0, 2.0])) * sp.element([2.0, 0.5]))
frecipe('derived/L2sq∘M', ('rn', 'arn'), 'pl', [FUN + 'FunctionalComp'],
        value=lambda ctx, sp, x: v_l2sq(sp, odl.MatrixOperator(np.array([[1.0, 2.0], [0.0, -1.0]]), domain=sp,
                                                               range=sp)(x)))(
    lambda ctx, sp: S.L2NormSquared(sp) * odl.MatrixOperator(np.array([[1.0, 2.0], [0.0, -1.0]]), domain=sp, range=sp))
frecipe('derived/L1∘scaling', ('rn', 'discr'), 'pl', [FUN + 'FunctionalComp'], n=1,
        value=lambda ctx, sp, x: v_l1(sp, 2.0 * x))(
    lambda ctx, sp: S.L1Norm(sp) * odl.ScalingOperator(sp, 2.0))
frecipe('derived/quadpert(L1)', ('rn', 'discr'), 'pl', [FUN + 'FunctionalQuadraticPerturb'], n=1,
        value=lambda ctx, sp, x: v_l1(sp, x) + 0.5 * x.inner(x) + x.inner(sp.element([1.0, -1.0][:sp.size])) + 2.0)(
    lambda ctx, sp: S.FunctionalQuadraticPerturb(S.L1Norm(sp), quadratic_coeff=0.5,
                                                 linear_term=sp.element([1.0, -1.0][:sp.size]), constant=2.0))
frecipe('derived/quadpert(L2sq)/linear-only', ('rn',), 'pl', [FUN + 'FunctionalQuadraticPerturb'],
        value=lambda ctx, sp, x: v_l2sq(sp, x) + x.inner(celem(ctx, sp, 't')))(
    lambda ctx, sp: S.FunctionalQuadraticPerturb(S.L2NormSquared(sp), linear_term=celem(ctx, sp, 't')))
frecipe('derived/quadpert(Box)', ('rn',), 'pl', [FUN + 'FunctionalQuadraticPerturb'], n=1)(
    lambda ctx, sp: S.FunctionalQuadraticPerturb(S.IndicatorBox(sp, -1, 2), quadratic_coeff=1.5))
frecipe('derived/product', ('rn',), 'pl', [FUN + 'FunctionalProduct'],
        value=lambda ctx, sp, x: v_l2sq(sp, x) * (x.inner(sp.element([1.0, -2.0])) + 1.0))(
    lambda ctx, sp: S.FunctionalProduct(S.L2NormSquared(sp), S.QuadraticForm(vector=sp.element([1.0, -2.0]),
                                                                            constant=1.0)))
frecipe('derived/quotient', ('rn',), 'pl', [FUN + 'FunctionalQuotient'],
        pre=None, value=lambda ctx, sp, x: (x.inner(sp.element([1.0, -2.0])) + 1.0) / (v_l2sq(sp, x) + 1.0))(
    lambda ctx, sp: S.FunctionalQuotient(S.QuadraticForm(vector=sp.element([1.0, -2.0]), constant=1.0),
                                         S.L2NormSquared(sp) + 1.0))
frecipe('derived/infconv(L2sq,L1)', ('rn',), 'pl', [FUN + 'InfimalConvolution'], n=1)(
    lambda ctx, sp: S.InfimalConvolution(S.L2NormSquared(sp), S.L1Norm(sp)))
frecipe('derived/Bregman(L2sq)', ('rn', 'discr'), 'pl', [FUN + 'BregmanDistance'])(
    lambda ctx, sp: _bregman_l2sq(ctx, sp))
frecipe('derived/Bregman(L1,subgrad)', ('rn',), 'pl', [FUN + 'BregmanDistance'], n=1)(
    lambda ctx, sp: S.BregmanDistance(S.L1Norm(sp), sp.element([1.0, -2.0][:sp.size]),
                                     subgrad=sp.element([1.0, -1.0][:sp.size])))
frecipe('derived/L1.convex_conj', ('rn', 'discr'), 'ind', [DEF + 'IndicatorLpUnitBall'])(
    lambda ctx, sp: S.L1Norm(sp).convex_conj)
frecipe('derived/L2sq.convex_conj', ALLS, 'pl', [DEF + 'L2NormSquared'])(
    lambda ctx, sp: S.L2NormSquared(sp).convex_conj)
frecipe('derived/Huber.convex_conj', ('rn',), 'pl', [FUN + 'FunctionalQuadraticPerturb'], n=1)(
    lambda ctx, sp: S.Huber(sp, 0.5).convex_conj)
frecipe('derived/default-conj(L2sq+L1)', ('rn',), 'pl', [FUN + 'FunctionalDefaultConvexConjugate'], n=1)(
    lambda ctx, sp: (S.L2NormSquared(sp) + S.L1Norm(sp)).convex_conj)

def _bregman_l2sq(ctx, sp):
    t = ctx.element(sp, 't')
    return S.BregmanDistance(S.L2NormSquared(sp), t, subgrad=2 * t)


NOT_ENCODABLE_F = {
    DEF + 'NuclearNorm': 'singular value decomposition is LAPACK (compiled)',
    DEF + 'IndicatorNuclearNormUnitBall': 'singular value decomposition is LAPACK (compiled)',
    FUN + 'Functional': 'abstract base class',
}


def instances(tier, want=None, harness=None):
    """(id, recipe name, space kind) for every recipe x space."""
    out = []
    for r in FRECIPES:
        if harness is not None and r.only is not None and harness not in r.only:
            continue
        for sk in r.spaces:
            if want is not None and not want(r, sk):
                continue
            out.append(('%s@%s' % (r.name, sk), r.name, sk))
    return out


_DIM_OK = {}


def supports_dim(name, sk, n):
    """does the recipe build and evaluate on the n-dimensional variant of its space?  (some recipes carry literal
    2-entry data)"""
    key = (name, sk, n)
    if key not in _DIM_OK:
        from symnp.ctx import Ctx
        import warnings
        try:
            with warnings.catch_warnings():
                warnings.simplefilter('ignore')
                c = Ctx('conc')
                r, f = build(c, name, sk, n=n)
                x = c.element(f.domain, 'x')
                if r.pre is not None:
                    r.pre(c, x)
                f(x)
            _DIM_OK[key] = True
        except Exception:
            _DIM_OK[key] = False
    return _DIM_OK[key]


def build(ctx, name, sk, n=None):
    r = fby_name(name)
    sp = None if sk == 'field' else space(sk, n if n is not None else r.n)
    return r, r.build(ctx, sp)


def unregistered_functionals():
    from harness.registry import all_operator_classes
    from odl.solvers.functional.functional import Functional
    have = set()
    for r in FRECIPES:
        have.update(r.classes)
    out = []
    for name, cls in sorted(all_operator_classes().items()):
        if not issubclass(cls, Functional):
            continue
        if name.startswith('odl.ufunc_ops.'):
            continue
        if name in have or name in NOT_ENCODABLE_F:
            continue
        out.append(name)
    return out
