"""C03 — operator calls: in-place equals out-of-place, input untouched, result in range.

Real code: Operator.__call__, __new__/_dispatch_call_args, _default_call_in_place/_out_of_place and the
_call of every operator recipe in harness/registry.py (built by introspection of the odl namespace)."""
import numpy as np
import odl
from odl.operator.operator import OpTypeError
from odl.set.sets import Field

from harness import funcs
from harness import registry as reg
from symnp.ctx import flat

EXPLANATION = ('C03: for every operator recipe of the introspective registry the public call protocol is executed on '
               'a symbolic input and a symbolic (arbitrary) previous content of out: op(x) in op.range, '
               'op(x,out=y) is y, y == op(x) for all x and all previous contents, x keeps its pre-call terms, '
               'wrong-space input/out is rejected with an Op*Error before out is touched.')
BOUNDS = {'quick': {'spaces': '2-6 entries', 'recipes': 'all non-heavy recipes'},
          'thorough': {'spaces': '2-6 entries', 'recipes': 'all recipes (full option cross-product listed in registry)'}}
OUTSIDE = ['operators on the NOT_ENCODABLE list of harness/registry.py (FFT, wavelet, ray transform, deformation, '
           'numerical derivatives)', 'NaN as such (garbage symbols are the real-number analogue of arbitrary contents)',
           'ufunc operators without a symbolic meaning (listed in registry.UFUNC_SKIP_REASON)']
ASSUMPTIONS = []
SETTINGS = {'max_paths': 300, 'tol': (1e-9, 4)}
CFG_TIMEOUT = {'quick': 120, 'thorough': 600}


def configs(tier, seed):
    out = []
    for r in reg.RECIPES:
        if r.heavy and tier == 'quick':
            continue
        out.append(('op/' + r.name, dict(kind='op', recipe=r.name)))
    # functionals are operators too: the call protocol of f, f.gradient and f.proximal(sigma)
    for cid, rn, sk in funcs.instances(tier, harness='C03'):
        out.append(('fun/' + cid, dict(kind='fun', recipe=rn, sk=sk, _settings={'max_paths': 1500, 'merge_abs': True})))
    # operators without a symbolic meaning (finite-difference approximations): the protocol on concrete floats,
    # compared bit for bit (concrete facts)
    for dt in ('float64', 'float32'):
        out.append(('concrete-protocol/numerical-derivatives/' + dt, dict(kind='concrete', recipe=dt)))
    out.append(('alias-leaf/wrappers', dict(kind='alias')))
    out.append(('registry/complete', dict(kind='registry')))
    return out


def canaries(tier, seed):
    return [('canary/op/Matrix', dict(kind='op', recipe='Matrix/rn3->rn2')),
            ('canary/op/Gradient', dict(kind='op', recipe='Gradient/forward'))]


def sym_input(ctx, space, name):
    if isinstance(space, Field):
        return ctx.cplx(name) if isinstance(space, odl.ComplexNumbers) else ctx.real(name)
    return ctx.element(space, name)


def other_space_element(space):
    """A concrete element of a *different* space (wrong size)."""
    if isinstance(space, Field):
        return odl.rn(2).one()
    if hasattr(space, 'spaces'):
        return odl.rn(1).one()
    return odl.rn(int(space.size) + 1).one()


def near_miss_outs(space):
    """concrete objects of the right shape that are not elements of ``space``"""
    from symnp import proxy
    was = proxy.STATE.armed
    proxy.STATE.armed = False
    try:
        out = []
        if hasattr(space, 'spaces') or isinstance(space, Field) or not hasattr(space, 'dtype'):
            return out
        shape = space.shape
        if np.dtype(space.dtype) == np.dtype('float64'):
            for tag, dt in (('float32-element', 'float32'), ('complex-element', 'complex128')):
                try:
                    if hasattr(space, 'partition'):
                        el = odl.uniform_discr_frompartition(space.partition, dtype=dt).zero()
                    else:
                        el = odl.tensor_space(shape, dtype=dt).zero()
                except Exception:
                    continue
                out.append((tag, el))
        if not hasattr(space, 'partition') and np.dtype(space.dtype).kind == 'f':
            out.append(('other-weighting', odl.rn(shape, dtype=space.dtype, weighting=3.5).zero()))
        out.append(('ndarray', np.zeros(shape, dtype=np.dtype(space.dtype))))
        out.append(('list', np.zeros(shape).tolist()))
        return out
    finally:
        proxy.STATE.armed = was


class AliasOp(odl.Operator):
    """Leaf whose out-of-place call legally returns its argument (as RealPart does on real spaces)."""

    def __init__(self, space):
        super(AliasOp, self).__init__(space, space, linear=True)

    def _call(self, x):
        return x


def _protocol(ctx, tag, op, x, pre, finite=True):
    """op(x) twice, op(x, out=garbage): same values, x untouched, out returned."""
    res = op(x)
    r0 = ctx.snapshot(res)
    ctx.eq(tag + '/x-unchanged/out-of-place', x, pre)
    if isinstance(op.range, Field):
        ctx.fact(tag + '/result-in-range', res in op.range or np.isscalar(res) or hasattr(res, 't'),
                 'result %r' % type(res))
        if finite and ctx.sym:
            from symnp.scalars import ENG
            from symnp import terms as T
            ts = [v.t for v in flat(r0) if hasattr(v, 't')]
            finite = not ({n for n, _ in T.free_vars(ts)} & ENG.poison)
        if finite:          # indicator functionals take the value +inf, which has no term
            ctx.eq(tag + '/value-deterministic', op(x), r0)
        else:
            op(x)
        ctx.eq(tag + '/x-unchanged/second-call', x, pre)
        return
    ctx.fact(tag + '/result-in-range', res in op.range)
    y = ctx.garbage(op.range, 'g' + tag.replace('/', '_'))
    ret = op(x, out=y)
    ctx.fact(tag + '/returns-out', ret is y)
    ctx.eq(tag + '/inplace=outofplace', y, r0)
    ctx.eq(tag + '/x-unchanged/in-place', x, pre)


def _fun_case(ctx, recipe, sk):
    r, f = funcs.build(ctx, recipe, sk)
    if isinstance(f.domain, Field) or not hasattr(f.domain, 'element'):
        ctx.fact('field-domain', True)
        return
    x = ctx.element(f.domain, 'x')
    if r.pre is not None:
        r.pre(ctx, x)
    pre = ctx.snapshot(x)
    try:
        _protocol(ctx, 'f', f, x, pre, finite=(r.kind != 'ind'))
    except NotImplementedError:
        ctx.fact('values-not-implemented', True)
    for nm, get in (('gradient', lambda: f.gradient), ('proximal', lambda: f.proximal(0.5))):
        try:
            op = get()
        except (NotImplementedError, ValueError):
            continue            # not offered (e.g. the proximal of a negatively scaled functional is refused)
        try:
            _protocol(ctx, nm, op, x, pre)
        except NotImplementedError:
            ctx.fact(nm + '-not-implemented', True)


def _concrete_protocol(ctx, dt):
    from symnp import proxy
    from odl.solvers.functional.derivatives import NumericalGradient, NumericalDerivative
    was = proxy.STATE.armed
    proxy.STATE.armed = False
    try:
        sp = odl.rn(4, dtype=dt)
        f = odl.solvers.L2NormSquared(sp)
        A = odl.MatrixOperator(np.array([[1.0, 2.0, 0.0, -1.0], [0.5, 0.0, 3.0, 1.0]], dtype=dt), domain=sp,
                               range=odl.rn(2, dtype=dt))
        pts = [np.array([0.3, -1.7, 2.9, 1e-9], dtype=dt), np.array([1.0 / 3, 2.0 / 7, -5.0 / 9, 123.456], dtype=dt)]
        for method in ('forward', 'backward', 'central'):
            for step in (None, 1e-6, 1e-3):
                kw = {} if step is None else {'step': step}
                ops = [('NumericalGradient', NumericalGradient(f, method=method, **kw))]
                for pi, p0 in enumerate(pts):
                    ops.append(('NumericalDerivative@%d' % pi, NumericalDerivative(A, sp.element(p0), method=method,
                                                                                   **kw)))
                for nm, op in ops:
                    for pi, p0 in enumerate(pts):
                        x = sp.element(p0.copy())
                        before = x.asarray().copy()
                        r1 = op(x)
                        tag = '%s/%s/step=%s/pt%d' % (nm, method, step, pi)
                        ctx.fact(tag + '/x-bitwise-unchanged', np.array_equal(x.asarray().view(np.uint8),
                                                                              before.view(np.uint8)),
                                 'x changed by %s' % (x.asarray() - before))
                        ctx.fact(tag + '/result-in-range', r1 in op.range)
                        y = op.range.element()
                        ret = op(x, out=y)
                        ctx.fact(tag + '/returns-out', ret is y)
                        ctx.fact(tag + '/inplace=outofplace', np.array_equal(y.asarray(), r1.asarray()))
                        ctx.fact(tag + '/x-bitwise-unchanged/in-place',
                                 np.array_equal(x.asarray().view(np.uint8), before.view(np.uint8)))
    finally:
        proxy.STATE.armed = was


def case(ctx, kind, recipe=None, sk=None):
    if kind == 'registry':
        missing = reg.unregistered()
        ctx.fact('every-operator-class-has-a-recipe-or-a-reason', not missing, 'unregistered: %s' % missing)
        return
    if kind == 'alias':
        sp = odl.rn(2)
        wrappers = {
            'A+v': lambda A, v, a: A + v,
            'A+a': lambda A, v, a: A + a,
            'a*A': lambda A, v, a: a * A,
            'A*a': lambda A, v, a: A * a,
            'v*A': lambda A, v, a: v * A,
            'A*v': lambda A, v, a: A * v,
            'A+A': lambda A, v, a: A + A,
            'A*A': lambda A, v, a: A * A,
            '-A': lambda A, v, a: -A,
            'A-v': lambda A, v, a: A - v,
            'A/a': lambda A, v, a: A / a,
            'A*A+v': lambda A, v, a: A * A + v,
            'PointwiseProduct': lambda A, v, a: odl.OperatorPointwiseProduct(A, A),
        }
        for i, (nm, mk) in enumerate(sorted(wrappers.items())):
            v = ctx.element(sp, 'v%d' % i)
            a = ctx.real('a%d' % i, nonzero=True)
            op = mk(AliasOp(sp), v, a)
            x = ctx.element(sp, 'x%d' % i)
            pre = ctx.snapshot(x)
            res = op(x)
            r0 = ctx.snapshot(res)
            ctx.eq('x-unchanged/' + nm, x, pre)
            y = ctx.garbage(sp, 'g%d' % i)
            ctx.fact('returns-out/' + nm, op(x, out=y) is y)
            ctx.eq('inplace=outofplace/' + nm, y, r0)
            ctx.eq('x-unchanged-inplace/' + nm, x, pre)
        return

    if kind == 'fun':
        return _fun_case(ctx, recipe, sk)
    if kind == 'concrete':
        return _concrete_protocol(ctx, recipe)
    r = reg.by_name(recipe)
    op = r.build(ctx)
    x = sym_input(ctx, op.domain, 'x')
    if r.pre is not None:
        r.pre(ctx, x)
    pre = ctx.snapshot(x)
    res = op(x)
    ctx.fact('result-in-range', res in op.range, 'result %r not in %r' % (type(res), op.range))
    r0 = ctx.snapshot(res)
    if ctx.canary:
        r0 = r0 + 1
    ctx.eq('x-unchanged/out-of-place', x, pre)
    if not isinstance(op.range, Field):
        y = ctx.garbage(op.range, 'g')
        ret = op(x, out=y)
        ctx.fact('returns-out', ret is y)
        ctx.eq('inplace=outofplace', y, r0)
        ctx.eq('x-unchanged/in-place', x, pre)
        # out of the wrong space: rejected before anything is written
        bad = other_space_element(op.range)
        badpre = bad.asarray().copy()
        ctx.expect_raises('wrong-out-rejected', OpTypeError, lambda: op(x, out=bad))
        ctx.fact('wrong-out-untouched', np.array_equal(bad.asarray(), badpre))
        # near misses: right shape, but not an element of the range (other dtype / weighting, plain array, list)
        for tag, nb in near_miss_outs(op.range):
            nbpre = np.array(nb, dtype=complex, copy=True) if not hasattr(nb, 'asarray') else nb.asarray().copy()
            ctx.expect_raises('near-miss-out-rejected/' + tag, OpTypeError, lambda nb=nb: op(x, out=nb))
            now = np.array(nb, dtype=complex) if not hasattr(nb, 'asarray') else nb.asarray()
            ctx.fact('near-miss-out-untouched/' + tag, np.array_equal(now, nbpre))
    else:
        ctx.eq('value-deterministic', op(x), r0)
    wrong = other_space_element(op.domain)
    ctx.expect_raises('wrong-input-rejected', OpTypeError, lambda: op(wrong))
