"""C03 — operator calls: in-place equals out-of-place, input untouched, result in range.

Real code: Operator.__call__, __new__/_dispatch_call_args, _default_call_in_place/_out_of_place and the
_call of every operator recipe in harness/registry.py (built by introspection of the odl namespace)."""
import numpy as np
import odl
from odl.operator.operator import OpTypeError
from odl.set.sets import Field

from harness import registry as reg
from symnp.ctx import flat

EXPLANATION = ('C03: for every operator recipe of the introspective registry the public call protocol is executed on '
               'a symbolic input and a symbolic (arbitrary) previous content of out: op(x) in op.range, '
               'op(x,out=y) is y, y == op(x) for all x and all previous contents, x keeps its pre-call terms, '
               'wrong-space input/out is rejected with an Op*Error before out is touched.')
BOUNDS = {'quick': {'spaces': '2-6 entries', 'recipes': 'all non-heavy recipes'},
          'thorough': {'spaces': '2-6 entries', 'recipes': 'all recipes (full option cross-product listed in registry)'}}
OUTSIDE = ['operators on the NOT_ENCODABLE list of harness/registry.py (FFT, wavelet, ray transform, deformation, '
           'numerical derivatives)', 'NaN as such (garbage symbols are the real-number analogue of arbitrary contents)',
           'ufunc operators without a symbolic meaning (listed in registry.UFUNC_SKIP_REASON)']
ASSUMPTIONS = []
SETTINGS = {'max_paths': 300, 'tol': (1e-9, 4)}
CFG_TIMEOUT = {'quick': 120, 'thorough': 600}


def configs(tier, seed):
    out = []
    for r in reg.RECIPES:
        if r.heavy and tier == 'quick':
            continue
        out.append(('op/' + r.name, dict(kind='op', recipe=r.name)))
    out.append(('alias-leaf/wrappers', dict(kind='alias')))
    out.append(('registry/complete', dict(kind='registry')))
    return out


def canaries(tier, seed):
    return [('canary/op/Matrix', dict(kind='op', recipe='Matrix/rn3->rn2')),
            ('canary/op/Gradient', dict(kind='op', recipe='Gradient/forward'))]


def sym_input(ctx, space, name):
    if isinstance(space, Field):
        return ctx.cplx(name) if isinstance(space, odl.ComplexNumbers) else ctx.real(name)
    return ctx.element(space, name)


def other_space_element(space):
    """A concrete element of a *different* space (wrong size)."""
    if isinstance(space, Field):
        return odl.rn(2).one()
    if hasattr(space, 'spaces'):
        return odl.rn(1).one()
    return odl.rn(int(space.size) + 1).one()


def near_miss_outs(space):
    """concrete objects of the right shape that are not elements of ``space``"""
    from symnp import proxy
    was = proxy.STATE.armed
    proxy.STATE.armed = False
    try:
        out = []
        if hasattr(space, 'spaces') or isinstance(space, Field) or not hasattr(space, 'dtype'):
            return out
        shape = space.shape
        if np.dtype(space.dtype) == np.dtype('float64'):
            for tag, dt in (('float32-element', 'float32'), ('complex-element', 'complex128')):
                try:
                    if hasattr(space, 'partition'):
                        el = odl.uniform_discr_frompartition(space.partition, dtype=dt).zero()
                    else:
                        el = odl.tensor_space(shape, dtype=dt).zero()
                except Exception:
                    continue
                out.append((tag, el))
        if not hasattr(space, 'partition') and np.dtype(space.dtype).kind == 'f':
            out.append(('other-weighting', odl.rn(shape, dtype=space.dtype, weighting=3.5).zero()))
        out.append(('ndarray', np.zeros(shape, dtype=np.dtype(space.dtype))))
        out.append(('list', np.zeros(shape).tolist()))
        return out
    finally:
        proxy.STATE.armed = was


class AliasOp(odl.Operator):
    """Leaf whose out-of-place call legally returns its argument (as RealPart does on real spaces)."""

    def __init__(self, space):
        super(AliasOp, self).__init__(space, space, linear=True)

    def _call(self, x):
        return x


def case(ctx, kind, recipe=None):
    if kind == 'registry':
        missing = reg.unregistered()
        ctx.fact('every-operator-class-has-a-recipe-or-a-reason', not missing, 'unregistered: %s' % missing)
        return
    if kind == 'alias':
        sp = odl.rn(2)
        wrappers = {
            'A+v': lambda A, v, a: A + v,
            'A+a': lambda A, v, a: A + a,
            'a*A': lambda A, v, a: a * A,
            'A*a': lambda A, v, a: A * a,
            'v*A': lambda A, v, a: v * A,
            'A*v': lambda A, v, a: A * v,
            'A+A': lambda A, v, a: A + A,
            'A*A': lambda A, v, a: A * A,
            '-A': lambda A, v, a: -A,
            'A-v': lambda A, v, a: A - v,
            'A/a': lambda A, v, a: A / a,
            'A*A+v': lambda A, v, a: A * A + v,
            'PointwiseProduct': lambda A, v, a: odl.OperatorPointwiseProduct(A, A),
        }
        for i, (nm, mk) in enumerate(sorted(wrappers.items())):
            v = ctx.element(sp, 'v%d' % i)
            a = ctx.real('a%d' % i, nonzero=True)
            op = mk(AliasOp(sp), v, a)
            x = ctx.element(sp, 'x%d' % i)
            pre = ctx.snapshot(x)
            res = op(x)
            r0 = ctx.snapshot(res)
            ctx.eq('x-unchanged/' + nm, x, pre)
            y = ctx.garbage(sp, 'g%d' % i)
            ctx.fact('returns-out/' + nm, op(x, out=y) is y)
            ctx.eq('inplace=outofplace/' + nm, y, r0)
            ctx.eq('x-unchanged-inplace/' + nm, x, pre)
        return

    r = reg.by_name(recipe)
    op = r.build(ctx)
    x = sym_input(ctx, op.domain, 'x')
    if r.pre is not None:
        r.pre(ctx, x)
    pre = ctx.snapshot(x)
    res = op(x)
    ctx.fact('result-in-range', res in op.range, 'result %r not in %r' % (type(res), op.range))
    r0 = ctx.snapshot(res)
    if ctx.canary:
        r0 = r0 + 1
    ctx.eq('x-unchanged/out-of-place', x, pre)
    if not isinstance(op.range, Field):
        y = ctx.garbage(op.range, 'g')
        ret = op(x, out=y)
        ctx.fact('returns-out', ret is y)
        ctx.eq('inplace=outofplace', y, r0)
        ctx.eq('x-unchanged/in-place', x, pre)
        # out of the wrong space: rejected before anything is written
        bad = other_space_element(op.range)
        badpre = bad.asarray().copy()
        ctx.expect_raises('wrong-out-rejected', OpTypeError, lambda: op(x, out=bad))
        ctx.fact('wrong-out-untouched', np.array_equal(bad.asarray(), badpre))
        # near misses: right shape, but not an element of the range (other dtype / weighting, plain array, list)
        for tag, nb in near_miss_outs(op.range):
            nbpre = np.array(nb, dtype=complex, copy=True) if not hasattr(nb, 'asarray') else nb.asarray().copy()
            ctx.expect_raises('near-miss-out-rejected/' + tag, OpTypeError, lambda nb=nb: op(x, out=nb))
            now = np.array(nb, dtype=complex) if not hasattr(nb, 'asarray') else nb.asarray()
            ctx.fact('near-miss-out-untouched/' + tag, np.array_equal(now, nbpre))
    else:
        ctx.eq('value-deterministic', op(x), r0)
    wrong = other_space_element(op.domain)
    ctx.expect_raises('wrong-input-rejected', OpTypeError, lambda: op(wrong))
