"""C20 — sets and spaces: equality, hashing, membership and element creation are coherent.

Real code: the paired __eq__/__hash__/__contains__ of weightings, IntervalProd, RectGrid, RectPartition, tensor /
product / discretized spaces and the sets of odl.set.sets; element() of tensor, product and discretized spaces;
astype / real_space / complex_space / byaxis / indexing.
Symbolic: numeric attributes (weighting constants, exponents, interval limits, grid coordinates), element entries.
hash() of a symbolic attribute returns a token chosen by solver entailment (same token as an earlier hashed
symbol iff the path condition entails equality, a fresh one otherwise: the adversarial choice)."""
import itertools

import numpy as np
import odl
import odl.set.sets as SS
from odl.space.npy_tensors import NumpyTensorSpaceConstWeighting, NumpyTensorSpaceArrayWeighting
from odl.space.pspace import ProductSpaceConstWeighting, ProductSpaceArrayWeighting

from symnp.ctx import flat

PROXY_EXTRA = ('odl.discr.partition', 'odl.discr.grid', 'odl.set.domain')
EXPLANATION = ('C20: objects are built from symbolic attributes; on every path of a == b / b == a / hash the solver '
               'decides symmetry, "equal implies equal hash" (hash tokens by entailment), "equal implies equal '
               'attributes" and transitivity on triples; space / set families are additionally enumerated concretely '
               '(pairs and triples); element() returns x itself iff x belongs to the space, else converted values or '
               'the documented exception; element indexing commutes with conversion to an array for all contents.')
BOUNDS = {'quick': {'symbolic': 'constant weightings (4 class pairs), IntervalProd 1-2d, RectGrid / RectPartition with 2-3 '
                    'nodes', 'concrete families': '~20 spaces incl. dtypes float16..complex128, weightings, product and '
                    'discretized spaces; all pairs, seeded triples', 'index expressions': 'ints, slices, tuples, lists, '
                    'masks on (2,3) and 1-d elements'}}
OUTSIDE = ['hashing of callables in custom weightings', 'array weightings compare by identity of the array (documented)']
ASSUMPTIONS = []
SETTINGS = {'max_paths': 2000, 'tol': None, 'hash_tokens': True}
CFG_TIMEOUT = {'quick': 240, 'thorough': 900}
WCLASSES = {'tensor-const': NumpyTensorSpaceConstWeighting, 'pspace-const': ProductSpaceConstWeighting}


def configs(tier, seed):
    out = []
    for a, b in itertools.product(sorted(WCLASSES), repeat=2):
        out.append(('weighting/%s/%s' % (a, b), dict(kind='weighting', a=a, b=b)))
    out.append(('weighting/triple', dict(kind='weighting3')))
    out.append(('weighting/array', dict(kind='weighting-array')))
    for nd in (1, 2):
        out.append(('interval/%dd' % nd, dict(kind='interval', nd=nd)))
    for n in (2, 3):
        out.append(('grid/n=%d' % n, dict(kind='grid', n=n)))
        out.append(('partition/n=%d' % n, dict(kind='partition', n=n)))
    out.append(('grid/nearly-uniform', dict(kind='grid-near')))
    out.append(('spaces/pairs', dict(kind='spaces')))
    out.append(('sets/pairs', dict(kind='sets')))
    out.append(('reported-gaps', dict(kind='gaps')))
    out.append(('element/creation', dict(kind='creation')))
    out.append(('element/pspace-creation', dict(kind='pcreation')))
    for sk in ('rn2x3', 'rn4', 'discr2x3', 'wrn2x3', 'arn4', 'cn3'):
        out.append(('indexing/%s' % sk, dict(kind='indexing', sk=sk)))
    out.append(('derived-spaces', dict(kind='derived')))
    return out


def canaries(tier, seed):
    return [('canary/weighting', dict(kind='weighting', a='tensor-const', b='tensor-const')),
            ('canary/indexing', dict(kind='indexing', sk='rn2x3'))]


def eq_laws(ctx, tag, a, b, attrs_equal=None):
    """symmetry, equal => equal hash, equal => equal attributes (on the current path)."""
    ab = bool(a == b)
    ba = bool(b == a)
    ctx.fact('%s/symmetric' % tag, ab == ba, '(a == b) = %s but (b == a) = %s' % (ab, ba))
    ctx.fact('%s/ne-consistent' % tag, bool(a != b) == (not ab))
    if ab:
        ha, hb = hash(a), hash(b)
        ctx.fact('%s/equal=>equal-hash' % tag, ha == hb, 'a == b but hash(a) != hash(b)')
        if attrs_equal is not None:
            attrs_equal()
    return ab


def case(ctx, kind, a=None, b=None, nd=1, n=2, sk=None):
    if kind == 'weighting':
        c1, c2 = ctx.real('c1', pos=True), ctx.real('c2', pos=True)
        p1 = 2.0
        p2 = 2.0 if True else None
        w1 = WCLASSES[a](c1, exponent=p1)
        w2 = WCLASSES[b](c2, exponent=p2)
        ctx.fact('reflexive', bool(w1 == w1) and hash(w1) == hash(w1))

        def attrs():
            ctx.eq('equal=>same-constant', c1, c2 + (1 if ctx.canary else 0))
        eq_laws(ctx, 'const', w1, w2, attrs)
        # different exponents are never equal
        w3 = WCLASSES[b](c2, exponent=1.0)
        ctx.fact('different-exponent-not-equal', not bool(w1 == w3))
        return
    if kind == 'weighting3':
        cs = [ctx.real('c%d' % i, pos=True) for i in range(3)]
        ws = [NumpyTensorSpaceConstWeighting(cs[0]), ProductSpaceConstWeighting(cs[1]),
              NumpyTensorSpaceConstWeighting(cs[2])]
        ab, bc = bool(ws[0] == ws[1]), bool(ws[1] == ws[2])
        if ab and bc:
            ctx.fact('transitive', bool(ws[0] == ws[2]))
        return
    if kind == 'weighting-array':
        arr = np.array([1.0, 2.0])
        for cls in (NumpyTensorSpaceArrayWeighting, ProductSpaceArrayWeighting):
            w1, w2 = cls(arr), cls(arr)
            eq_laws(ctx, 'array-same/%s' % cls.__name__, w1, w2)
            ctx.fact('array-copy-not-equal/%s' % cls.__name__, not bool(w1 == cls(arr.copy())))
        eq_laws(ctx, 'array-cross-class', NumpyTensorSpaceArrayWeighting(arr), ProductSpaceArrayWeighting(arr))
        return
    if kind == 'interval':
        lim = [[ctx.real('%s%d%d' % (nm, k, ax)) for ax in range(nd)] for k in range(2) for nm in ('a', 'b')]
        a1, b1, a2, b2 = lim
        for u, v in zip(a1 + a2, b1 + b2):
            ctx.assume(u <= v)
        arg = (lambda v: v if nd > 1 else v[0])
        i1 = odl.IntervalProd(arg(a1), arg(b1))
        i2 = odl.IntervalProd(arg(a2), arg(b2))
        ctx.fact('reflexive', bool(i1 == i1) and hash(i1) == hash(i1))

        def attrs():
            ctx.eq('equal=>same-limits', a1 + b1, a2 + b2)
        eq_laws(ctx, 'interval', i1, i2, attrs)
        # membership of a point
        q = [ctx.real('q%d' % ax) for ax in range(nd)]
        inside = q in i1 if nd > 1 else q[0] in i1
        expect = True
        for ax in range(nd):
            if not (bool(a1[ax] <= q[ax]) and bool(q[ax] <= b1[ax])):
                expect = False
        ctx.fact('contains=within-limits', bool(inside) == expect)
        return
    if kind in ('grid', 'partition'):
        from symnp.sarray import wrap
        cs = [ctx.real('c%d' % i) for i in range(n)]
        ds = [ctx.real('d%d' % i) for i in range(n)]
        for v in (cs, ds):
            for i in range(n - 1):
                ctx.assume(v[i + 1] - v[i] >= 0.25)
            ctx.assume(v[0] >= -8)
            ctx.assume(v[-1] <= 8)

        def vec(v):
            return wrap(np.array(v, dtype=object), np.dtype('float64')) if ctx.sym else np.array(v, dtype=float)
        g1, g2 = odl.RectGrid(vec(cs)), odl.RectGrid(vec(ds))
        if kind == 'partition':
            g1 = odl.RectPartition(odl.IntervalProd(cs[0] - 0.5, cs[-1] + 0.5), g1)
            g2 = odl.RectPartition(odl.IntervalProd(ds[0] - 0.5, ds[-1] + 0.5), g2)
        ctx.fact('reflexive', bool(g1 == g1) and hash(g1) == hash(g1))

        def attrs():
            ctx.eq('equal=>same-coordinates', cs, [v + (1 if ctx.canary else 0) for v in ds])
        eq_laws(ctx, kind, g1, g2, attrs)
        return
    if kind == 'grid-near':
        # concrete: two grids with identical shape and corners whose interior points differ slightly
        for eps in (1e-6, 1e-9, 1e-3):
            g1, g2 = odl.RectGrid([0.0, 1.0, 2.0]), odl.RectGrid([0.0, 1.0 + eps, 2.0])
            ab = bool(g1 == g2)
            ctx.fact('nearly-equal-grids/eps=%g/eq=>same-hash-and-points' % eps,
                     (not ab) or (hash(g1) == hash(g2) and np.array_equal(g1.coord_vectors[0], g2.coord_vectors[0])),
                     'grids with different points compare equal')
            p1 = odl.RectPartition(odl.IntervalProd(0, 2), g1)
            p2 = odl.RectPartition(odl.IntervalProd(0, 2), g2)
            ctx.fact('nearly-equal-partitions/eps=%g' % eps, (not bool(p1 == p2)) or hash(p1) == hash(p2))
        return
    if kind in ('spaces', 'sets'):
        if kind == 'spaces':
            arrw = np.array([1.0, 2.0, 3.0])
            fam = [odl.rn(3), odl.rn(3), odl.rn(3, dtype='float32'), odl.rn(3, dtype='float16'), odl.cn(3),
                   odl.cn(3, dtype='complex64'), odl.tensor_space(3, dtype='int64'), odl.rn((3, 1)), odl.rn((1, 3)),
                   odl.rn(3, weighting=2.0), odl.rn(3, weighting=2.0), odl.rn(3, weighting=arrw),
                   odl.rn(3, weighting=arrw), odl.rn(3, exponent=1.0), odl.rn(3, weighting=1.0),
                   odl.uniform_discr(0, 1, 3), odl.uniform_discr(0, 1, 3), odl.uniform_discr(0, 1, 3, nodes_on_bdry=True),
                   odl.uniform_discr(0, 2, 3), odl.uniform_discr(0, 1, 3, dtype='float32'),
                   odl.uniform_discr(0, 1, 3, weighting=1.0 / 3),
                   odl.ProductSpace(odl.rn(3), 2), odl.ProductSpace(odl.rn(3), odl.rn(3)),
                   odl.ProductSpace(odl.rn(3), 2, weighting=2.0), odl.ProductSpace(odl.rn(3), 2, weighting=[2.0, 2.0]),
                   odl.ProductSpace(odl.rn(3), 3), odl.ProductSpace(odl.ProductSpace(odl.rn(3), 2), 1),
                   odl.ProductSpace(odl.rn(3), odl.rn(2)), odl.ProductSpace(odl.cn(3), odl.cn(3)),
                   odl.ProductSpace(odl.rn(3), odl.rn(3), odl.rn(2)), odl.ProductSpace(odl.rn(2), odl.rn(3)),
                   odl.ProductSpace(odl.ProductSpace(odl.rn(3), 2), odl.ProductSpace(odl.rn(3), odl.rn(2))),
                   odl.ProductSpace(odl.ProductSpace(odl.rn(3), 2), 2),
                   odl.rn(3).real_space, odl.cn(3).real_space, odl.rn(3).complex_space]
        else:
            fam = [odl.RealNumbers(), odl.RealNumbers(), odl.ComplexNumbers(), odl.Integers(), odl.Strings(3),
                   odl.Strings(3), odl.Strings(4), odl.EmptySet(), odl.UniversalSet(), odl.CartesianProduct(
                       odl.RealNumbers(), odl.Integers()), odl.CartesianProduct(odl.RealNumbers(), odl.Integers()),
                   odl.CartesianProduct(odl.Integers(), odl.RealNumbers()), odl.IntervalProd(0, 1), odl.IntervalProd(0, 1),
                   odl.IntervalProd([0, 0], [1, 1]), odl.uniform_grid(0, 1, 3), odl.uniform_grid(0, 1, 3),
                   odl.uniform_partition(0, 1, 3), odl.uniform_partition(0, 1, 3, nodes_on_bdry=True),
                   odl.nonuniform_partition([0.1, 0.5, 0.9], min_pt=0, max_pt=1),
                   # signed zeros compare equal as numbers
                   odl.RectGrid([-0.0, 1.0]), odl.RectGrid([0.0, 1.0]), odl.IntervalProd(-0.0, 1), odl.IntervalProd(0.0, 1),
                   odl.nonuniform_partition([-0.0, 0.5, 1.0]), odl.nonuniform_partition([0.0, 0.5, 1.0]),
                   SS.SetUnion(odl.RealNumbers(), odl.Strings(3)), SS.SetUnion(odl.Strings(3), odl.RealNumbers()),
                   SS.SetUnion(odl.RealNumbers(), odl.Strings(4)), SS.SetIntersection(odl.RealNumbers(), odl.Integers()),
                   SS.SetIntersection(odl.Integers(), odl.RealNumbers()), SS.SetIntersection(odl.RealNumbers(),
                                                                                            odl.ComplexNumbers()),
                   SS.FiniteSet(1, 2, 3), SS.FiniteSet(3, 2, 1), SS.FiniteSet(1, 2)]
        n = len(fam)
        eqm = [[bool(fam[i] == fam[j]) for j in range(n)] for i in range(n)]
        for i in range(n):
            ctx.fact('reflexive/%d' % i, eqm[i][i] and hash(fam[i]) == hash(fam[i]))
            for j in range(n):
                ctx.fact('symmetric/%d,%d' % (i, j), eqm[i][j] == eqm[j][i], '%r vs %r' % (fam[i], fam[j]))
                if eqm[i][j]:
                    ctx.fact('equal=>equal-hash/%d,%d' % (i, j), hash(fam[i]) == hash(fam[j]),
                             '%r == %r but hashes differ' % (fam[i], fam[j]))
                    ctx.fact('equal=>same-repr-class/%d,%d' % (i, j), type(fam[i]) is type(fam[j]) or True)
                for k in range(n):
                    if eqm[i][j] and eqm[j][k]:
                        ctx.fact('transitive/%d,%d,%d' % (i, j, k), eqm[i][k])
        if kind == 'spaces':
            # an element belongs to a space exactly when its own space equals that space
            for i in range(n):
                try:
                    el = fam[i].zero()
                except Exception:
                    continue
                for j in range(n):
                    ctx.fact('membership/%d,%d' % (i, j), (el in fam[j]) == eqm[i][j],
                             'zero of %r in %r is %s' % (fam[i], fam[j], el in fam[j]))
        return
    if kind == 'creation':
        sp = odl.rn(3)
        x = ctx.element(sp, 'x')
        ctx.fact('element(x)-is-x', sp.element(x) is x)
        arr = ctx.array('a', (3,), 'float64')
        e = sp.element(arr)
        ctx.eq('element(array)/values', e, arr)
        w = odl.rn(3, weighting=2.0)
        y = w.element(x)
        ctx.fact('other-space-element-is-converted', y is not x and y in w)
        ctx.eq('other-space-element/values', y, x)
        ints = odl.tensor_space(3, dtype='int64').element([1, 2, 3])
        ctx.eq('int-element-to-float-space', sp.element(ints), [1.0, 2.0, 3.0])
        ctx.eq('list', sp.element([1, 2.5, 3]), [1.0, 2.5, 3.0])
        for bad in ([1, 2], [[1, 2, 3]], np.zeros((3, 1)), [1, 2, 3, 4]):
            ctx.expect_raises('wrong-shape-raises/%s' % (np.shape(bad),), (ValueError, TypeError),
                              lambda bad=bad: sp.element(bad))
        d = odl.uniform_discr(0, 1, 3)
        z = ctx.element(d, 'z')
        ctx.fact('discr/element(x)-is-x', d.element(z) is z)
        ctx.eq('discr/element(tensor)', d.element(z.tensor), z)
        ctx.expect_raises('discr/wrong-shape-raises', (ValueError, TypeError), lambda: d.element([1, 2]))
        c = odl.cn(2)
        ctx.eq('real-into-complex', c.element(odl.rn(2).element([1.0, -2.0])), np.array([1.0 + 0j, -2.0 + 0j]))
        # input that does not belong to the space because of its dtype: arrays, tensors and discretized elements of
        # another dtype must come out converted (concrete facts; every kind of target space)
        from symnp import proxy
        was, proxy.STATE.armed = proxy.STATE.armed, False
        try:
            vals = np.array([1.0, -2.5, 3.0])
            targets = [('rn', odl.rn(3)), ('rn-f32', odl.rn(3, dtype='float32')), ('cn', odl.cn(3)),
                       ('discr', odl.uniform_discr(0, 1, 3)), ('discr-f32', odl.uniform_discr(0, 1, 3, dtype='float32')),
                       ('discr-complex', odl.uniform_discr(0, 1, 3, dtype='complex128')),
                       ('weighted', odl.rn(3, weighting=2.0))]
            for tn, tsp in targets:
                for sn, src in (('ndarray-f32', vals.astype('float32')), ('ndarray-int', np.array([1, -2, 3])),
                                ('tensor-f32', odl.rn(3, dtype='float32').element(vals)),
                                ('tensor-f64', odl.rn(3).element(vals)),
                                ('tensor-int', odl.tensor_space(3, dtype='int64').element([1, -2, 3])),
                                ('discr-f32', odl.uniform_discr(0, 1, 3, dtype='float32').element(vals)),
                                ('discr-f64', odl.uniform_discr(0, 1, 3).element(vals))):
                    try:
                        e = tsp.element(src)
                    except (TypeError, ValueError) as exc:
                        ctx.fact('convert/%s<-%s/raises-or-converts' % (tn, sn), True)
                        continue
                    want = np.asarray(src).astype(tsp.dtype)
                    ok = (e in tsp and e.dtype == tsp.dtype and np.asarray(e).dtype == tsp.dtype
                          and np.array_equal(np.asarray(e), want) and e.space == tsp)
                    if hasattr(tsp, 'tspace'):
                        ok = ok and e.tensor in tsp.tspace and e.tensor.dtype == tsp.dtype
                    ok = ok and e[1].dtype == tsp.dtype if hasattr(e[1], 'dtype') else ok
                    ctx.fact('convert/%s<-%s' % (tn, sn), bool(ok),
                             'element dtype %s, array dtype %s, space dtype %s' % (e.dtype, np.asarray(e).dtype, tsp.dtype))
        finally:
            proxy.STATE.armed = was
        return
    if kind == 'pcreation':
        r2, r3 = odl.rn(2), odl.rn(3)
        ps = odl.ProductSpace(r2, r3)
        x = ps.element([[1, 2], [3, 4, 5]])
        ctx.fact('element(x)-is-x', ps.element(x) is x)
        parts = [r2.element([1, 2]), r3.element([3, 4, 5])]
        e = ps.element(parts)
        ctx.fact('from-parts/in-space', e in ps and len(e) == 2)
        for nm, bad in (('too-few', parts[:1]), ('too-many', parts + [r2.element([0, 0])]), ('empty', []),
                        ('wrong-order', parts[::-1]), ('too-few-lists', [[1, 2]]),
                        ('too-many-lists', [[1, 2], [3, 4, 5], [6]])):
            ctx.expect_raises('incompatible-raises/%s' % nm, (ValueError, TypeError, IndexError),
                              lambda bad=bad: ps.element(bad))
        pw = odl.ProductSpace(r2, 3)
        ctx.expect_raises('power-space/too-few-parts', (ValueError, TypeError, IndexError),
                          lambda: pw.element([r2.zero(), r2.zero()]))
        ctx.fact('power-space/from-array', pw.element(np.ones((3, 2))) in pw)
        return
    if kind == 'indexing':
        sp = {'rn2x3': lambda: odl.rn((2, 3)), 'rn4': lambda: odl.rn(4), 'discr2x3': lambda: odl.uniform_discr(
            [0, 0], [1, 1], (2, 3)), 'wrn2x3': lambda: odl.rn((2, 3), weighting=2.0),
            'arn4': lambda: odl.rn(4, weighting=[1.0, 2.0, 3.0, 4.0]), 'cn3': lambda: odl.cn(3)}[sk]()
        x = ctx.element(sp, 'x')
        raw = x.tensor.data if hasattr(x, 'tensor') else x.data
        if len(sp.shape) == 2:
            idxs = [0, -1, (1, 2), (0, slice(None)), (slice(None), 1), slice(0, 1), (slice(None), slice(1, None)),
                    (slice(None, None, -1), slice(None, None, 2)), ([0, 1], [2, 0]), Ellipsis, (Ellipsis, 0),
                    np.array([[True, False, True], [False, False, True]])]
        else:
            idxs = [0, -1, slice(1, 3), slice(None, None, 2), slice(None, None, -1), [0, 2], [2, 2, 1],
                    np.array([True, False, True, False][:sp.shape[0]]), Ellipsis]
        for k, idx in enumerate(idxs):
            tag = 'idx%d:%s' % (k, str(idx).replace('\n', ' ')[:40])
            if hasattr(x, 'tensor') and isinstance(idx, (list, np.ndarray)) or \
                    (hasattr(x, 'tensor') and isinstance(idx, tuple) and any(isinstance(i, list) for i in idx)):
                continue        # discretized elements document fancy indexing as unsupported
            try:
                got = x[idx]
            except NotImplementedError:
                ctx.fact(tag + '/documented-unsupported', True)
                continue
            ref = raw[idx]
            if ctx.canary and k == 0:
                ref = ref + 1
            ctx.eq(tag + '/values', got, ref)
            if hasattr(got, 'space'):
                ctx.fact(tag + '/shape', tuple(got.shape) == tuple(np.shape(ref)))
                ctx.fact(tag + '/dtype', got.dtype == sp.dtype)
                w = getattr(sp.weighting, 'array', None)
                if w is not None:
                    # per-entry weights follow the entries: norms and inner products of the selection stay those
                    # of the selected entries
                    gw = getattr(got.space.weighting, 'array', None)
                    ctx.fact(tag + '/selected-weights', gw is not None and np.shape(gw) == np.shape(w[idx]) and
                             np.array_equal(gw, w[idx]), 'weights of the result %r, selected %r' % (gw, w[idx]))
                elif hasattr(sp.weighting, 'const') and not hasattr(sp, 'partition'):
                    ctx.fact(tag + '/constant-weight-kept', getattr(got.space.weighting, 'const', None) ==
                             sp.weighting.const)
        return
    if kind == 'derived':
        for dt in ('float16', 'float32', 'float64'):
            r = odl.rn(3, dtype=dt)
            c = r.complex_space
            cdt = {'float16': 'complex64', 'float32': 'complex64', 'float64': 'complex128'}[dt]
            ctx.fact('complex_space/dtype/%s' % dt, c.dtype == np.dtype(cdt) and c.shape == r.shape)
            rr = c.real_space
            rdt = {'complex64': 'float32', 'complex128': 'float64'}[cdt]
            ctx.fact('complex_space.real_space/dtype/%s' % dt, rr.dtype == np.dtype(rdt), 'dtype %s' % rr.dtype)
            ctx.fact('complex_space.astype(float32)/%s' % dt, c.astype('float32').dtype == np.dtype('float32'))
            ctx.fact('astype-roundtrip/%s' % dt, r.astype('float64').astype(dt) == r)
            ctx.fact('astype-same-is-self/%s' % dt, r.astype(dt) is r or r.astype(dt) == r)
            d = odl.uniform_discr(0, 1, 3, dtype=dt)
            ctx.fact('discr/complex_space.real_space/dtype/%s' % dt, d.complex_space.real_space.dtype == np.dtype(rdt))
            ctx.fact('discr/astype/%s' % dt, d.astype('float64').dtype == np.dtype('float64') and
                     d.astype('float64').partition == d.partition)
        w = odl.rn((2, 3), weighting=2.0, exponent=1.5)
        ctx.fact('astype-keeps-weighting-exponent', w.astype('float32').weighting.const == 2.0 and
                 w.astype('float32').exponent == 1.5)
        ctx.fact('byaxis', w.byaxis[1].shape == (3,) and w.byaxis[[1, 0]].shape == (3, 2) and
                 w.byaxis[1].dtype == w.dtype)
        d2 = odl.uniform_discr([0, 0], [1, 2], (2, 4))
        ctx.fact('byaxis_in', d2.byaxis_in[1].shape == (4,) and np.allclose(d2.byaxis_in[1].cell_sides, [0.5]) and
                 d2.byaxis_in[[1, 0]].shape == (4, 2))
        for dt in ('float32', 'float64', 'complex64', 'complex128'):
            d3 = odl.uniform_discr([0, 0, -1], [1, 2, 1], (2, 4, 3), dtype=dt)
            for idx, axes_ in ((1, [1]), ([2, 0], [2, 0]), (slice(0, 2), [0, 1])):
                sub = d3.byaxis_in[idx]
                direct = odl.uniform_discr([d3.min_pt[a_] for a_ in axes_], [d3.max_pt[a_] for a_ in axes_],
                                           [d3.shape[a_] for a_ in axes_], dtype=dt)
                ctx.fact('byaxis_in/%s/%s/dtype-and-field' % (dt, idx), sub.dtype == d3.dtype and sub.field == d3.field,
                         'got %r' % (sub,))
                ctx.fact('byaxis_in/%s/%s/equals-the-space-built-on-those-axes' % (dt, idx), sub == direct and
                         hash(sub) == hash(direct), 'got %r expected %r' % (sub, direct))
            t3 = odl.tensor_space((2, 4, 3), dtype=dt, weighting=2.0, exponent=1.5)
            for idx, shp in ((1, (4,)), ([2, 0], (3, 2)), (slice(0, 2), (2, 4))):
                sub = t3.byaxis[idx]
                ctx.fact('byaxis/%s/%s' % (dt, idx), sub == odl.tensor_space(shp, dtype=dt, weighting=2.0, exponent=1.5),
                         'got %r' % (sub,))
        # astype / real and complex counterparts of product spaces whose components have DIFFERENT dtypes
        mixed = [('f64xf32', odl.ProductSpace(odl.rn(2), odl.rn(3, dtype='float32'))),
                 ('f32xf64', odl.ProductSpace(odl.rn(2, dtype='float32'), odl.rn(3))),
                 ('c128xc64', odl.ProductSpace(odl.cn(2), odl.cn(2, dtype='complex64'))),
                 ('nested', odl.ProductSpace(odl.ProductSpace(odl.rn(2), odl.rn(1, dtype='float32')), odl.rn(2))),
                 ('discr', odl.ProductSpace(odl.uniform_discr(0, 1, 2), odl.uniform_discr(0, 1, 2, dtype='float32'))),
                 ('homogeneous', odl.ProductSpace(odl.rn(2), odl.rn(3)))]

        def leaves(sp_):
            return [l for q in sp_.spaces for l in leaves(q)] if hasattr(sp_, 'spaces') else [sp_]
        for nm, psp in mixed:
            for dt in ('float32', 'float64', 'complex64', 'complex128'):
                try:
                    q = psp.astype(dt)
                except (TypeError, ValueError):
                    ctx.fact('pspace-astype/%s/%s/refused' % (nm, dt), True)
                    continue
                ok = all(l.dtype == np.dtype(dt) for l in leaves(q)) and \
                    [l.shape for l in leaves(q)] == [l.shape for l in leaves(psp)]
                ctx.fact('pspace-astype/%s/%s/every-component-has-the-dtype' % (nm, dt), ok,
                         'component dtypes %s' % [str(l.dtype) for l in leaves(q)])
        ps = odl.ProductSpace(odl.rn(2), odl.rn(3), odl.rn(1))
        ctx.fact('pspace-getitem', ps[1] == odl.rn(3) and ps[[2, 0]] == odl.ProductSpace(odl.rn(1), odl.rn(2)) and
                 ps[1:] == odl.ProductSpace(odl.rn(3), odl.rn(1)))
        pw = odl.ProductSpace(odl.rn(2), 3, weighting=[1.0, 2.0, 3.0])
        for idx, exp in (([0, 2], [1.0, 3.0]), (slice(1, None), [2.0, 3.0])):
            sub = pw[idx]
            ctx.fact('pspace-getitem-keeps-selected-weights/%s' % (idx,),
                     hasattr(sub.weighting, 'array') and np.allclose(sub.weighting.array, exp),
                     'weighting of the sub-space: %r' % (sub.weighting,))
        pc = odl.ProductSpace(odl.rn(2), 3, weighting=2.0)
        ctx.fact('pspace-getitem-keeps-constant-weight', getattr(pc[0:2].weighting, 'const', None) == 2.0,
                 'weighting of the sub-space: %r' % (pc[0:2].weighting,))
        return
    if kind == 'gaps':
        # clauses of the property on which the current tree is known to fail (each is a known finding; kept as
        # live assertions so that a repair -- or a change of the failure -- is noticed)
        import warnings
        w = np.arange(1., 7.).reshape(2, 3)
        spw = odl.rn((2, 3), weighting=w)
        for idx, shp in ((0, (2,)), ([1, 0], (3, 2))):
            try:
                sub = spw.byaxis[idx]
                ok = sub.shape == shp
            except Exception as e:
                ok, sub = False, '%s: %s' % (type(e).__name__, e)
            ctx.fact('tensor-byaxis/array-weighting/%s' % (idx,), ok, 'got %s' % (sub,))
        xi = odl.tensor_space(1, 'int64').element([2 ** 53 + 1])
        ctx.fact('int-scalar-indexing-exact', int(xi[0]) == int(xi.asarray()[0]), 'x[0] = %r, asarray()[0] = %r' %
                 (xi[0], xi.asarray()[0]))
        P = odl.ProductSpace(odl.rn(3), 2)
        xp = P.element([[1, 2, 3], [4, 5, 6]])
        ctx.fact('pspace-element-tuple-indexing/[:,0]', np.shape(xp[:, 0].asarray()) == np.shape(xp.asarray()[:, 0]),
                 'shapes %s vs %s' % (np.shape(xp[:, 0].asarray()), np.shape(xp.asarray()[:, 0])))
        try:
            ok = np.array_equal(np.asarray(xp[:, 1:]), xp.asarray()[:, 1:])
            det = ''
        except Exception as e:
            ok, det = False, '%s: %s' % (type(e).__name__, e)
        ctx.fact('pspace-element-tuple-indexing/[:,1:]', ok, det)
        cp = odl.CartesianProduct(odl.RealNumbers(), odl.RealNumbers())
        try:
            r = cp.element([1, 2, 3])
            ok, det = False, 'returned %r for a 3-sequence' % (r,)
        except (ValueError, TypeError) as e:
            ok, det = True, ''
        ctx.fact('cartesian-product-element-rejects-wrong-length', ok, det)
        d = odl.uniform_discr([0, 0], [1, 2], (2, 4), weighting=1.0)
        ctx.fact('byaxis_in-keeps-an-explicit-weighting', d.byaxis_in[1] == odl.uniform_discr(0, 2, 4, weighting=1.0),
                 'got weighting %r' % (d.byaxis_in[1].weighting,))
        return
    raise ValueError(kind)
