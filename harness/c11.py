"""C11 — optimised solvers match their reference implementations and resume exactly.

Real code: admm_linearized vs admm_linearized_simple, adupdates vs adupdates_simple, doubleprox_dc vs
doubleprox_dc_simple (iterates compared through callbacks / final points, iteration by iteration);
resumption (k+1 at once = k then 1 from an arbitrary symbolic state) for landweber, kaczmarz(random=False),
proximal_gradient, mlem, steepest_descent (constant step) and pdhg with x_relax=, y= passed back.
Symbolic: start points, data / right-hand sides, dual start.  Concrete dyadic: operator matrices, step sizes."""
import numpy as np
import odl
import odl.solvers as S

from symnp.ctx import flat

EXPLANATION = ('C11: the real solver loops are executed on symbolic start points and data (proximal abs/max merged '
               'into if-then-else terms, so each run is one or few paths); z3 decides term-wise equality of the '
               'iterates of the optimised and the reference implementation for every iteration, and equality of '
               'running k+1 iterations at once with running k and then 1 from the exposed state, for all inputs.')
BOUNDS = {'quick': {'operators': 'dyadic 2x2 / 2x3 matrices, identity, scaling', 'niter': '1..3',
                    'functionals': 'L1 (translated), squared L2 (scaled/translated), indicator box, group L1 absent '
                    '(sqrt) in quick', 'steps': 'several dyadic choices incl. stepsize != 1, gamma != mu, theta in '
                    '{0, 1/2, 1}, element-valued inner step sizes'}}
OUTSIDE = ['pdhg with gamma_primal / gamma_dual (internal step-size state not exposed)', 'randomised Kaczmarz / adupdates',
           'accelerated proximal gradient (momentum state not exposed)', 'niter > 3 other than by the inductive '
           'k+1 = k then 1 argument (the loop bodies do not depend on the iteration index)', 'floating-point rounding']
ASSUMPTIONS = []
SETTINGS = {'max_paths': 64, 'tol': (1e-9, 4), 'merge_abs': True, 'obligation_timeout_ms': 30000}
CFG_TIMEOUT = {'quick': 240, 'thorough': 900}

M22 = [[1.0, 0.5], [-0.25, 2.0]]
M23 = [[1.0, 0.5, 0.0], [-0.25, 2.0, 1.0]]
POS22 = [[1.0, 0.5], [0.25, 2.0]]


def _fun(ctx, name, sp, tag):
    if name == 'L2sq':
        return S.L2NormSquared(sp)
    if name == 'L1':
        return S.L1Norm(sp)
    if name == 'box':
        return S.IndicatorBox(sp, -1, 2)
    if name == 'L1-b':
        return S.L1Norm(sp).translated(ctx.element(sp, 'b' + tag))
    if name == 'L2sq-b':
        return S.L2NormSquared(sp).translated(ctx.element(sp, 'b' + tag))
    if name == '2*L2sq-b':
        return 2.0 * S.L2NormSquared(sp).translated(ctx.element(sp, 'b' + tag))
    if name == 'L2sq(3x)-b':
        return (S.L2NormSquared(sp) * 3.0).translated(ctx.element(sp, 'b' + tag))
    if name == 'nonneg':
        return S.IndicatorNonnegativity(sp)
    if name == 'zero':
        return S.ZeroFunctional(sp)
    raise ValueError(name)


def configs(tier, seed):
    out = []
    for f in ('L2sq', 'L1', 'box'):
        for g in ('L1-b', 'L2sq-b'):
            for niter in (1, 2):
                for tau, sigma in ((0.25, 0.5), (0.5, 0.5)):
                    out.append(('admm/f=%s/g=%s/niter=%d/tau=%s,sigma=%s' % (f, g, niter, tau, sigma),
                                dict(kind='admm', f=f, g=g, niter=niter, tau=tau, sigma=sigma)))
    for steps in ('scalars', 'element', 'list'):
        for stepsize in (1.0, 0.5, 2.0):
            for niter in (1, 2):
                out.append(('adupdates/inner=%s/stepsize=%s/niter=%d' % (steps, stepsize, niter),
                            dict(kind='adupdates', steps=steps, stepsize=stepsize, niter=niter)))
    for f in ('L2sq', 'L1'):
        for g in ('L1', '2*L2sq-b', 'L2sq(3x)-b'):
            for gamma, mu in ((0.5, 0.5), (0.5, 0.25), (0.25, 1.0)):
                for niter in (1, 2):
                    out.append(('doubleprox/f=%s/g=%s/gamma=%s,mu=%s/niter=%d' % (f, g, gamma, mu, niter),
                                dict(kind='doubleprox', f=f, g=g, gamma=gamma, mu=mu, niter=niter)))
    for k in (1, 2):
        out.append(('resume/landweber/k=%d' % k, dict(kind='landweber', k=k)))
        out.append(('resume/landweber+projection/k=%d' % k, dict(kind='landweber', k=k, proj=True)))
        out.append(('resume/kaczmarz/k=%d' % k, dict(kind='kaczmarz', k=k)))
        out.append(('resume/mlem/k=%d' % k, dict(kind='mlem', k=k)))
        out.append(('resume/steepest_descent/k=%d' % k, dict(kind='steepest', k=k)))
        for f in ('L1', 'box'):
            out.append(('resume/proximal_gradient/f=%s/k=%d' % (f, k), dict(kind='proxgrad', f=f, k=k)))
        for theta in (0, 0.5, 1):
            for f in ('L1', 'nonneg'):
                out.append(('resume/pdhg/f=%s/theta=%s/k=%d' % (f, theta, k),
                            dict(kind='pdhg', f=f, theta=theta, k=k)))
    return out


def canaries(tier, seed):
    return [('canary/admm', dict(kind='admm', f='L2sq', g='L1-b', niter=1, tau=0.25, sigma=0.5)),
            ('canary/resume/landweber', dict(kind='landweber', k=1))]


class Rec(object):
    def __init__(self, ctx):
        self.ctx, self.its = ctx, []

    def __call__(self, x):
        self.its.append(self.ctx.snapshot(x))


def case(ctx, kind, f=None, g=None, niter=1, tau=None, sigma=None, steps=None, stepsize=None, gamma=None, mu=None,
         k=1, theta=1, proj=False):
    X = odl.rn(2)
    bump = 1 if ctx.canary else 0
    if kind == 'admm':
        L = odl.MatrixOperator(np.array(M22), domain=X, range=X)
        ff = _fun(ctx, f, X, 'f')
        gg = _fun(ctx, g, X, 'g')
        x0 = ctx.element(X, 'x')
        xa, xb = x0.copy(), x0.copy()
        ra = Rec(ctx)
        S.admm_linearized(xa, ff, gg, L, tau, sigma, niter, callback=ra)
        rb = Rec(ctx)
        S.nonsmooth.admm.admm_linearized_simple(xb, ff, gg, L, tau, sigma, niter, callback=rb)
        ctx.fact('callback-once-per-iteration', len(ra.its) == niter and len(rb.its) == niter,
                 'callback calls: %d / %d for niter=%d' % (len(ra.its), len(rb.its), niter))
        for i, (a, b) in enumerate(zip(ra.its, rb.its)):
            ctx.eq('iterate-%d' % (i + 1), a, b + bump)
        ctx.eq('final', xa, xb)
        return
    if kind == 'adupdates':
        Y = odl.rn(2)
        Ls = [odl.MatrixOperator(np.array(M22), domain=X, range=Y), odl.IdentityOperator(X)]
        gs = [_fun(ctx, 'L2sq-b', Y, 'g0'), _fun(ctx, 'L1', X, 'g1')]
        if steps == 'scalars':
            inner = [0.25, 0.5]
        elif steps == 'element':
            inner = [Y.element([0.25, 0.125]), 0.5]
        else:
            inner = [[0.25, 0.125], 0.5]
        x0 = ctx.element(X, 'x')
        xa, xb = x0.copy(), x0.copy()
        ra = Rec(ctx)
        from odl.solvers.nonsmooth import alternating_dual_updates as adu
        adu.adupdates(xa, gs, Ls, stepsize, inner, niter, callback=ra)
        adu.adupdates_simple(xb, gs, Ls, stepsize, inner, niter)
        ctx.fact('callback-once-per-iteration', len(ra.its) == niter)
        ctx.eq('final', xa, flat(xb) + bump)
        if niter == 2:
            # the first recorded iterate equals a one-iteration run of the reference
            xc = x0.copy()
            adu.adupdates_simple(xc, gs, Ls, stepsize, inner, 1)
            ctx.eq('iterate-1', ra.its[0], xc)
        return
    if kind == 'doubleprox':
        K = odl.MatrixOperator(np.array(M22), domain=X, range=X)
        ff = _fun(ctx, f, X, 'f')
        phi = S.L2NormSquared(X).translated(ctx.element(X, 'c'))
        gg = _fun(ctx, g, X, 'g')
        x0 = ctx.element(X, 'x')
        y0 = ctx.element(X, 'y')
        xa, ya, xb, yb = x0.copy(), y0.copy(), x0.copy(), y0.copy()
        from odl.solvers.nonsmooth import difference_convex as dc
        ra = Rec(ctx)
        dc.doubleprox_dc(xa, ya, ff, phi, gg, K, niter, gamma, mu, callback=ra)
        res = dc.doubleprox_dc_simple(xb, yb, ff, phi, gg, K, niter, gamma, mu)
        ctx.fact('callback-once-per-iteration', len(ra.its) == niter)
        # the reference returns / updates its iterates; compare the primal and dual variables
        xs = res[0] if isinstance(res, tuple) else xb
        ys = res[1] if isinstance(res, tuple) else yb
        ctx.eq('final-x', xa, flat(xs) + bump)
        ctx.eq('final-y', ya, ys)
        return

    # ------------------------------------------------------------- resumption
    def split_equals_whole(run, state_names):
        """run(state, n) advances the exposed state in place; from an arbitrary symbolic state,
        k+1 iterations at once must equal k iterations followed by 1."""
        st_a = [ctx.element(X if nm != 'ydual' else Yd, nm) for nm in state_names]
        st_b = [s.copy() for s in st_a]
        ca, cb = Rec(ctx), Rec(ctx)
        run(st_a, k + 1, ca)
        run(st_b, k, cb)
        run(st_b, 1, cb)
        ctx.fact('callback-once-per-iteration', len(ca.its) == k + 1 and len(cb.its) == k + 1,
                 'callback calls %d and %d for %d iterations' % (len(ca.its), len(cb.its), k + 1))
        for nm, a, b in zip(state_names, st_a, st_b):
            ctx.eq('resume/%s' % nm, a, flat(b) + bump)
        for i, (a, b) in enumerate(zip(ca.its, cb.its)):
            ctx.eq('resume/iterate-%d' % (i + 1), a, b)

    Yd = odl.rn(2)
    A = odl.MatrixOperator(np.array(M22), domain=X, range=Yd)
    if kind == 'landweber':
        rhs = ctx.element(Yd, 'rhs')
        pr = (lambda v: v.ufuncs.maximum(0, out=v)) if proj else None
        split_equals_whole(lambda st, n, cb: S.landweber(A, st[0], rhs, n, omega=0.125, projection=pr, callback=cb),
                           ['x'])
        return
    if kind == 'kaczmarz':
        ops = [odl.MatrixOperator(np.array([M22[0]]), domain=X, range=odl.rn(1)),
               odl.MatrixOperator(np.array([M22[1]]), domain=X, range=odl.rn(1))]
        rhs = [ctx.element(odl.rn(1), 'r0'), ctx.element(odl.rn(1), 'r1')]
        split_equals_whole(lambda st, n, cb: S.kaczmarz(ops, st[0], rhs, n, omega=0.5, callback=cb,
                                                        callback_loop='outer'), ['x'])
        return
    if kind == 'mlem':
        P = odl.MatrixOperator(np.array(POS22), domain=X, range=Yd)
        data = ctx.element(Yd, 'data')
        x = None

        def run(st, n, cb):
            S.mlem(P, st[0], data, n, callback=cb)
        # positivity (documented precondition of MLEM)
        st = ctx.element(X, 'x')
        for v in list(flat(st)) + list(flat(data)):
            ctx.assume(v > 0)
        sa, sb = st.copy(), st.copy()
        ca, cb = Rec(ctx), Rec(ctx)
        run([sa], k + 1, ca)
        run([sb], k, cb)
        run([sb], 1, cb)
        ctx.fact('callback-once-per-iteration', len(ca.its) == k + 1 and len(cb.its) == k + 1)
        ctx.eq('resume/x', sa, flat(sb) + bump)
        return
    if kind == 'steepest':
        fobj = S.L2NormSquared(Yd).translated(ctx.element(Yd, 'rhs')) * A
        split_equals_whole(lambda st, n, cb: S.steepest_descent(fobj, st[0], line_search=0.125, maxiter=n, tol=0.0,
                                                                callback=cb), ['x'])
        return
    if kind == 'proxgrad':
        ff = _fun(ctx, f, X, 'f')
        gsm = S.L2NormSquared(Yd).translated(ctx.element(Yd, 'rhs')) * A
        split_equals_whole(lambda st, n, cb: S.proximal_gradient(st[0], ff, gsm, gamma=0.0625, niter=n, callback=cb),
                           ['x'])
        return
    if kind == 'pdhg':
        ff = _fun(ctx, f, X, 'f')
        gg = S.L2NormSquared(Yd).translated(ctx.element(Yd, 'rhs'))

        def run(st, n, cb):
            S.pdhg(st[0], ff, gg, A, n, tau=0.25, sigma=0.25, theta=theta, x_relax=st[1], y=st[2], callback=cb)
        split_equals_whole(run, ['x', 'xrelax', 'ydual'])
        return
    raise ValueError(kind)
