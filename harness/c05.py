"""C05 — every exposed adjoint satisfies <Ax,y> = <x,A*y> in the spaces' own inner product.

Real code: .adjoint of every linear operator recipe of harness/registry.py (built-ins with hand-written
adjoints, expression classes, product-space block operators, difference and resizing operators) and
the spaces' own (weighted) inner products.  Symbolic: x in domain, y in range, scalars, multiplicand
vectors, matrix entries."""
import itertools
import random

import numpy as np
import odl
from odl.set.sets import Field

from harness import registry as reg
from harness.c03 import sym_input
from symnp.ctx import flat

EXPLANATION = ('C05: for every linear operator recipe (and enumerated expression trees over symbolic linear leaves) '
               'the real A, A.adjoint and the real inner products of domain and range are executed on symbolic x, y; '
               'inner(A x, y) = inner(x, A* y) is decided as a polynomial identity for all x, y, parameters and '
               'matrix entries; A* maps range->domain; A.adjoint.adjoint(x) = A(x).')
BOUNDS = {'quick': {'spaces': '2-6 entries; unweighted, constant-, array-weighted, uniform_discr (cell volume != 1), '
                    'nodes_on_bdry, complex', 'trees': 'all expression trees of depth <= 2 over 3 linear leaves '
                    '(seeded subset of 150)'},
          'thorough': {'trees': 'all trees of depth <= 2 (exhaustive) + 400 seeded depth-3 trees'}}
OUTSIDE = ['operators whose adjoint is documented as approximate (Resampling, ray transforms, deformation): exempt',
           'Fourier/wavelet adjoints (compiled back-ends; C18 scope)', 'sparse-matrix MatrixOperator (SciPy sparse '
           'kernels are C)', 'floating-point rounding']
ASSUMPTIONS = []
SETTINGS = {'max_paths': 200, 'tol': (1e-9, 4)}
CFG_TIMEOUT = {'quick': 120, 'thorough': 600}


def linear_recipes(tier):
    return [r for r in reg.RECIPES if r.linear and not r.exempt_adjoint and not (r.heavy and tier == 'quick')]


# ------------------------------------------------------- expression trees
LEAVES = ('A', 'B', 'I')          # two symbolic matrices and the identity on rn(2)
UNARY = ('neg', 'lsc', 'rsc', 'lvec', 'rvec', 'adj')
BINARY = ('sum', 'diff', 'comp')


def trees(depth):
    if depth == 0:
        return [(l,) for l in LEAVES]
    sub = trees(depth - 1)
    out = list(sub)
    for u in UNARY:
        out += [(u, t) for t in sub]
    for b in BINARY:
        out += [(b, s, t) for s in sub for t in sub]
    # remove duplicates keeping order
    seen, res = set(), []
    for t in out:
        if t not in seen:
            seen.add(t)
            res.append(t)
    return res


def tree_str(t):
    if len(t) == 1:
        return t[0]
    return '%s(%s)' % (t[0], ','.join(tree_str(s) for s in t[1:]))


def build_tree(ctx, t, env):
    k = t[0]
    if k in LEAVES:
        return env[k]
    a = build_tree(ctx, t[1], env)
    if k == 'neg':
        return -a
    if k == 'lsc':
        return env['s'] * a
    if k == 'rsc':
        return a * env['s']
    if k == 'lvec':
        return env['v'] * a
    if k == 'rvec':
        return a * env['v']
    if k == 'adj':
        return a.adjoint
    b = build_tree(ctx, t[2], env)
    if k == 'sum':
        return a + b
    if k == 'diff':
        return a - b
    if k == 'comp':
        return a * b
    raise ValueError(k)


def configs(tier, seed):
    out = []
    for r in linear_recipes(tier):
        out.append(('adj/' + r.name, dict(kind='recipe', recipe=r.name)))
    all2 = [t for t in trees(2) if len(t) > 1]
    rnd = random.Random(seed)
    if tier == 'quick':
        sel = [t for t in trees(1) if len(t) > 1] + rnd.sample(all2, 150)
    else:
        sel = all2
        all3 = trees(3)
        sel = sel + rnd.sample(all3, 400)
    # multi-step: the adjoint is taken, the data an operand refers to is updated in place, the adjoint is taken again
    for w in ('comp', 'sum', 'lsc', 'rvec', 'comp-of-comp'):
        out.append(('stale-adjoint/%s' % w, dict(kind='stale', recipe=w)))
    chunk = 4
    sel = list(dict.fromkeys(sel))
    for field in ('real', 'complex'):
        for sp in ('plain', 'weighted'):
            ts = sel if (field == 'real' and sp == 'weighted') or tier == 'thorough' else sel[:60]
            for i in range(0, len(ts), chunk):
                out.append(('tree/%s/%s/%03d' % (field, sp, i // chunk),
                            dict(kind='trees', field=field, space=sp, trees=[list(map_tree(t)) for t in ts[i:i + chunk]])))
    return out


def map_tree(t):
    """tuple tree -> JSON-able nested list"""
    return [t[0]] + [map_tree(s) for s in t[1:]]


def unmap_tree(l):
    return tuple([l[0]] + [unmap_tree(s) for s in l[1:]])


def canaries(tier, seed):
    return [('canary/adj/Matrix', dict(kind='recipe', recipe='Matrix/rn3->rn2')),
            ('canary/tree', dict(kind='trees', field='real', space='plain', trees=[['comp', ['A'], ['B']]]))]


def inner(space, a, b):
    if isinstance(space, Field):
        return a * (b.conjugate() if hasattr(b, 'conjugate') else b)
    return a.inner(b)


def is_complex_space(space):
    if isinstance(space, Field):
        return isinstance(space, odl.ComplexNumbers)
    return getattr(space, 'is_complex', False) or (hasattr(space, 'spaces') and any(is_complex_space(s)
                                                                                   for s in space.spaces))


def adjoint_identity(ctx, tag, A):
    try:
        As = A.adjoint
    except NotImplementedError:
        # (OpNotImplementedError is a NotImplementedError) the operator offers no adjoint:
        # the property quantifies over operators that return one
        ctx.fact('no-adjoint-offered/' + tag, True)
        return
    ctx.fact('adjoint-maps-range-to-domain/' + tag, As.domain == A.range and As.range == A.domain,
             'adjoint: %r -> %r, operator: %r -> %r' % (As.domain, As.range, A.domain, A.range))
    x = sym_input(ctx, A.domain, 'x' + tag)
    y = sym_input(ctx, A.range, 'y' + tag)
    px, py = ctx.snapshot(x), ctx.snapshot(y)
    lhs = inner(A.range, A(x), y)
    rhs = inner(A.domain, x, As(y))
    mixed = is_complex_space(A.domain) != is_complex_space(A.range)
    if ctx.canary:
        rhs = rhs + 1
    if mixed:
        # real <-> complex: compared in real part, as documented
        ctx.eq('adjoint-identity(real part)/' + tag, lhs.real, rhs.real)
    else:
        ctx.eq('adjoint-identity/' + tag, lhs, rhs)
    ctx.eq('x-unchanged/' + tag, x, px)
    ctx.eq('y-unchanged/' + tag, y, py)
    Ass = As.adjoint
    ctx.eq('adjoint.adjoint=A/' + tag, Ass(x), A(x))
    # the returned adjoint is an operator like any other: evaluated into a given output it gives the same values
    # (the solvers call adjoints in place)
    from odl.set.sets import Field
    if isinstance(As.range, Field):
        return          # field-valued operators have no `out`
    try:
        ref = ctx.snapshot(As(y))
        o = ctx.garbage(As.range, 'oadj' + tag)
        ret = As(y, out=o)
    except (NotImplementedError, TypeError) as e:
        ctx.fact('adjoint-in-place-not-offered/' + tag, True)
        return
    ctx.fact('adjoint-in-place-returns-out/' + tag, ret is o)
    ctx.eq('adjoint-in-place=out-of-place/' + tag, o, ref)


def _stale(ctx, w):
    sp = odl.cn(2)
    m = ctx.element(sp, 'm')
    M = ctx.array('M', (2, 2), 'complex128')
    mult = odl.MultiplyOperator(m)
    mat = odl.MatrixOperator(M, domain=sp, range=sp)
    v = ctx.element(sp, 'v')
    s_ = ctx.cplx('s')
    A = {'comp': lambda: mat * mult, 'sum': lambda: mat + mult, 'lsc': lambda: s_ * (mult * mat),
         'rvec': lambda: (mat * mult) * v, 'comp-of-comp': lambda: (mult * mat) * (mat * mult)}[w]()
    adjoint_identity(ctx, 'before', A)
    # in-place update of the element / array the leaves refer to (new arbitrary values)
    m2 = ctx.element(sp, 'm2')
    M2 = ctx.array('M2', (2, 2), 'complex128')
    m.assign(m2)
    M[...] = M2
    adjoint_identity(ctx, 'after-in-place-update', A)


def case(ctx, kind, recipe=None, field='real', space='plain', trees=None):
    if kind == 'stale':
        return _stale(ctx, recipe)
    if kind == 'recipe':
        r = reg.by_name(recipe)
        A = r.build(ctx)
        adjoint_identity(ctx, '', A)
        return
    # expression trees over symbolic linear leaves
    if field == 'real':
        sp = odl.rn(2) if space == 'plain' else odl.rn(2, weighting=[1.0, 2.0])
        dt = 'float64'
    else:
        sp = odl.cn(2) if space == 'plain' else odl.cn(2, weighting=[1.0, 2.0])
        dt = 'complex128'
    for i, tl in enumerate(trees):
        t = unmap_tree(tl)
        env = {
            'A': odl.MatrixOperator(ctx.array('A%d' % i, (2, 2), dt), domain=sp, range=sp),
            'B': odl.MatrixOperator(ctx.array('B%d' % i, (2, 2), dt), domain=sp, range=sp),
            'I': odl.IdentityOperator(sp),
            's': ctx.cplx('s%d' % i) if field == 'complex' else ctx.real('s%d' % i),
            'v': ctx.element(sp, 'v%d' % i),
        }
        op = build_tree(ctx, t, env)
        adjoint_identity(ctx, '%d:%s' % (i, tree_str(t)), op)
