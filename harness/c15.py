"""C15 — sampling and interpolation reproduce the function at the nodes and between them.

Sampling: the callable is an *uninterpreted function* h of the point coordinates, offered in each calling
convention (natively vectorised on mesh input, @vectorize-wrapped scalar function, using only some coordinates,
in-place out=, constant, complex-valued, call-before-sampling sequences); space.element(h) runs the real
sampling_function / _make_dual_use_func / point_collocation; entry [i,j] must be h(c0_i, c1_j) -- decided by
congruence, i.e. for every function.
Interpolation: nearest / linear / per-axis interpolators with symbolic values and symbolic evaluation points
(cell search forks); oracle: closest node / multilinear blend; node reproduction; exactness on affine data;
same terms for single points, point arrays and mesh grids; Resampling through the same kernels."""
import itertools

import numpy as np
import odl
from odl.discr import discr_utils as du

from symnp.ctx import flat
from symnp.scalars import is_symscalar

PROXY_EXTRA = ()
EXPLANATION = ('C15: space.element(callable) is executed with an uninterpreted callable in every calling convention and '
               'must produce exactly its values at the grid points (congruence: for every function); the interpolators '
               'are executed on symbolic node values and symbolic evaluation points and must equal the closest-node / '
               'multilinear-blend reference on every cell, reproduce node values, be exact on affine data, and not '
               'depend on how points are passed; Resampling with per-axis mixed schemes equals the reference.')
BOUNDS = {'quick': {'ndim': '1-2 (3 for Resampling with concrete grids)', 'nodes per axis': '2-4 (non-uniform, concrete '
                    'coordinates)', 'evaluation points': '1-2 symbolic points per call', 'dtypes': 'float64, complex128, '
                    'float32 claimed'}}
OUTSIDE = ['rounding of symbolic evaluation points (the engine computes over the reals; concrete float64 points next '
           'to ties and nodes with float32 / complex64 values are covered)',
           'string dtype for nearest interpolation', 'symbolic coordinate vectors beyond 3 nodes in 1-d (concrete non-uniform ones are used elsewhere)',
           'more than one cell outside the hull']
ASSUMPTIONS = []
SETTINGS = {'max_paths': 2000, 'tol': None, 'obligation_timeout_ms': 20000}
CFG_TIMEOUT = {'quick': 240, 'thorough': 900}
CV1 = [0.0, 0.5, 2.0, 3.0]
CV2 = [[0.0, 1.0, 1.5], [-1.0, 0.0, 2.0]]
CV6 = [-2.0, -1.5, 0.0, 0.25, 2.0, 3.5]


def configs(tier, seed):
    out = []
    for conv in ('vectorized', 'vectorize-decorator', 'one-coordinate', 'in-place', 'constant', 'dual-use',
                 'called-before-sampling', 'vectorize-decorator-called-with-int-first'):
        out.append(('sampling/2d/%s' % conv, dict(kind='sampling', conv=conv)))
    out.append(('sampling/2d/complex', dict(kind='sampling', conv='vectorized', dtype='complex128')))
    out.append(('sampling/1d/vectorized', dict(kind='sampling', conv='vectorized', nd=1)))
    out.append(('sampling/1d/coordinate-itself', dict(kind='sampling', conv='coordinate-itself', nd=1)))
    out.append(('sampling/2d/coordinate-itself', dict(kind='sampling', conv='coordinate-itself')))
    out.append(('sampling/1d/vectorize-decorator', dict(kind='sampling', conv='vectorize-decorator', nd=1)))
    for scheme in ('nearest', 'linear'):
        out.append(('interp/1d/%s' % scheme, dict(kind='interp1', scheme=scheme)))
        out.append(('interp/1d/%s/affine' % scheme, dict(kind='affine1', scheme=scheme)))
    for scheme in (['linear', 'linear'], ['nearest', 'nearest'], ['nearest', 'linear'], ['linear', 'nearest']):
        out.append(('interp/2d/%s' % '+'.join(scheme), dict(kind='interp2', scheme=scheme)))
    out.append(('interp/2d/calling-conventions', dict(kind='conventions')))
    for scheme in ('nearest', 'linear'):
        out.append(('interp/1d/%s/symbolic-nodes' % scheme, dict(kind='interp1', scheme=scheme, cv='symbolic')))
        out.append(('interp/1d/%s/symbolic-nodes/affine' % scheme, dict(kind='affine1', scheme=scheme, cv='symbolic')))
    for scheme in ('nearest', 'linear'):
        out.append(('interp/1d/%s/outside-hull' % scheme, dict(kind='outside1', scheme=scheme)))
    for scheme in (['linear', 'nearest', 'linear'], ['nearest', 'linear', 'linear'], ['nearest', 'nearest', 'nearest']):
        out.append(('interp/3d/%s' % '+'.join(scheme), dict(kind='interp3', scheme=scheme)))
    out.append(('interp/2d/outside-hull', dict(kind='outside2')))
    for scheme in ('nearest', 'linear', ['nearest', 'linear'], ['linear', 'nearest']):
        out.append(('deform/2d/%s' % (scheme if isinstance(scheme, str) else '+'.join(scheme)),
                    dict(kind='deform', scheme=scheme, nd=2)))
        out.append(('deform/2d/%s/fortran-ordered-displacement' % (scheme if isinstance(scheme, str) else '+'.join(scheme)),
                    dict(kind='deform', scheme=scheme, nd=2, forder=True)))
    for scheme in ('nearest', 'linear'):
        out.append(('deform/1d/%s' % scheme, dict(kind='deform', scheme=scheme, nd=1)))
    for vd in ('float32', 'complex64', 'float64'):
        for scheme in ('nearest', 'linear'):
            out.append(('interp/1d/%s/%s-values/points-at-and-near-ties' % (scheme, vd),
                        dict(kind='fixedpoints', scheme=scheme, dtype=vd, cv=CV1)))
            out.append(('interp/1d/%s/%s-values/grid-far-from-origin' % (scheme, vd),
                        dict(kind='fixedpoints', scheme=scheme, dtype=vd, cv=[1000.0, 1000.01, 1000.03, 1000.04])))
    for scheme in (['linear', 'nearest', 'linear'], ['nearest', 'linear', 'nearest'], ['nearest', 'nearest', 'linear'],
                   ['linear', 'linear', 'linear']):
        out.append(('resampling/3d/%s' % '+'.join(scheme), dict(kind='resampling', scheme=scheme)))
    out.append(('resampling/1d', dict(kind='resampling', scheme=['linear'])))
    out.append(('resampling/1d/same-shape-other-node-placement', dict(kind='resampling', scheme=['linear'],
                                                                     cv='same-shape')))
    out.append(('resampling/2d/same-shape-other-node-placement', dict(kind='resampling', scheme=['linear', 'nearest'],
                                                                     cv='same-shape')))
    out.append(('sampling/grid-not-aliased/degenerate-axes', dict(kind='grid-alias')))
    if tier == 'thorough':
        # more nodes per axis, all 8 per-axis combinations in 3-d, all 2-d combinations outside the hull
        for scheme in ('nearest', 'linear'):
            out.append(('interp/1d/%s/6-nodes' % scheme, dict(kind='interp1', scheme=scheme, cv=CV6)))
            out.append(('interp/1d/%s/6-nodes/outside-hull' % scheme, dict(kind='outside1', scheme=scheme, cv=CV6)))
            out.append(('interp/1d/%s/float32-values/6-nodes' % scheme,
                        dict(kind='fixedpoints', scheme=scheme, dtype='float32', cv=CV6)))
        for scheme in itertools.product(('nearest', 'linear'), repeat=3):
            cid = 'interp/3d/%s' % '+'.join(scheme)
            if cid not in dict(out):
                out.append((cid, dict(kind='interp3', scheme=list(scheme))))
            cid = 'resampling/3d/%s' % '+'.join(scheme)
            if cid not in dict(out):
                out.append((cid, dict(kind='resampling', scheme=list(scheme))))
        for conv in ('vectorized', 'vectorize-decorator', 'in-place', 'dual-use'):
            out.append(('sampling/2d/%s/complex' % conv, dict(kind='sampling', conv=conv, dtype='complex128')))
            out.append(('sampling/2d/%s/float32' % conv, dict(kind='sampling', conv=conv, dtype='float32')))
    return out


def canaries(tier, seed):
    return [('canary/sampling', dict(kind='sampling', conv='vectorized')),
            ('canary/interp', dict(kind='interp1', scheme='linear'))]


def broadcast_apply(h, *arrs):
    """apply a scalar callable element-wise with numpy broadcasting (works on symbols and floats)"""
    arrs = [np.asarray(a, dtype=object) if not isinstance(a, np.ndarray) else a for a in arrs]
    bc = np.broadcast(*arrs)
    out = np.empty(bc.shape, dtype=object)
    barrs = np.broadcast_arrays(*arrs)
    for idx in np.ndindex(bc.shape):
        out[idx] = h(*[b[idx] for b in barrs])
    if not any(is_symscalar(v) for v in out.ravel()):
        try:
            return out.astype(complex if any(isinstance(v, complex) for v in out.ravel()) else float)
        except (TypeError, ValueError):
            return out
    from symnp.sarray import wrap
    return wrap(out, np.dtype('float64'))


def nearest_1d(cv, x, f):
    """closest node, right neighbour on ties (as the property states)"""
    best = 0
    for i in range(1, len(cv)):
        # node i is chosen over i-1 when x is at or beyond the midpoint
        if bool(x >= (cv[i - 1] + cv[i]) / 2):
            best = i
    return best


def linear_weights_1d(cv, x):
    """(i, w): value = (1-w) f[i] + w f[i+1] on the cell containing x"""
    i = 0
    for k in range(1, len(cv) - 1):
        if bool(x >= cv[k]):
            i = k
    w = (x - cv[i]) / (cv[i + 1] - cv[i])
    return i, w


def axis_terms(cv, x, scheme):
    """[(node index, weight)] of one axis, including the documented behaviour outside the hull: nearest extends
    constantly, linear ramps to zero at the (virtual) next node"""
    n = len(cv)
    if bool(x < cv[0]):
        if scheme == 'nearest':
            return [(0, 1)]
        return [(0, 1 + (x - cv[0]) / (cv[1] - cv[0]))]
    if bool(x > cv[-1]):
        if scheme == 'nearest':
            return [(n - 1, 1)]
        return [(n - 1, 2 - (x - cv[n - 2]) / (cv[n - 1] - cv[n - 2]))]
    if scheme == 'nearest':
        return [(nearest_1d(cv, x, None), 1)]
    i, w = linear_weights_1d(cv, x)
    return [(i, 1 - w), (i + 1, w)]


def ref_interp(cvs, schemes, F, point):
    """tensor product of the per-axis rules"""
    terms = [axis_terms(cv, x, sc) for cv, x, sc in zip(cvs, point, schemes)]
    val = 0
    for combo in itertools.product(*terms):
        w = 1
        for _, wi in combo:
            w = w * wi
        val = val + w * F[tuple(i for i, _ in combo)]
    return val


def case(ctx, kind, conv=None, dtype='float64', nd=2, scheme=None, cv=None, forder=False):
    bump = 1 if ctx.canary else 0
    if kind == 'sampling':
        if nd == 2:
            space = odl.uniform_discr([0, 0], [1, 3], (2, 3), dtype=dtype)
        else:
            space = odl.uniform_discr(0, 2, 4, dtype=dtype)
        coords = [list(v) for v in space.grid.coord_vectors]
        cplx = dtype == 'complex128'
        hr = ctx.uf('h', nd)
        hi = ctx.uf('hi', nd) if cplx else None

        def h(*a):
            if cplx:
                re, im = hr(*a), hi(*a)
                if is_symscalar(re) or is_symscalar(im):
                    from symnp.scalars import SC
                    return SC(re, im)
                return complex(re, im)
            return hr(*a)
        ref = [h(*pt) for pt in itertools.product(*coords)]
        if conv == 'vectorized':
            func = (lambda x: broadcast_apply(h, *[x[k] for k in range(nd)])) if nd > 1 else \
                (lambda x: broadcast_apply(h, x))
        elif conv == 'vectorize-decorator':
            if nd > 1:
                @odl.util.vectorize(otypes=[dtype])
                def func(x):
                    return h(x[0], x[1])
            else:
                @odl.util.vectorize(otypes=[dtype])
                def func(x):
                    return h(x[0])
        elif conv == 'vectorize-decorator-called-with-int-first':
            # a multi-step sequence: a decorated function without otypes that is integer-valued at integer points is
            # first evaluated at such a point (integer result type), then sampled
            k = ctx.integer('k', -4, 4)

            @odl.util.vectorize
            def func(x):
                return k * x[0] + x[1] * x[1]
            first = func([1, 2])
            ctx.eq('value-at-integer-point', first, k + 4)
            ref = [k * pt[0] + pt[1] * pt[1] for pt in itertools.product(*coords)]
        elif conv == 'one-coordinate':
            h1 = ctx.uf('h1', 1)
            ref = [h1(pt[1]) for pt in itertools.product(*coords)]
            func = lambda x: broadcast_apply(h1, x[1])        # noqa: relies on broadcasting along axis 0
        elif conv == 'coordinate-itself':
            # the callable returns (a view of) its input: the values are the coordinates
            ref = [pt[0] for pt in itertools.product(*coords)]
            func = (lambda x: x[0]) if nd > 1 else (lambda x: x)
        elif conv == 'in-place':
            def func(x, out):
                out[:] = broadcast_apply(h, *[x[k] for k in range(nd)])
        elif conv == 'constant':
            c = ctx.real('c')
            ref = [c for _ in itertools.product(*coords)]
            func = lambda x: c        # noqa
        elif conv == 'dual-use':
            def func(x, out=None):
                res = broadcast_apply(h, *[x[k] for k in range(nd)])
                if out is None:
                    return res
                out[:] = res
        elif conv == 'called-before-sampling':
            func = lambda x: broadcast_apply(h, *[x[k] for k in range(nd)])   # noqa
            # evaluate the wrapped function at a single point and at a point array before sampling
            wrapped = du.sampling_function(func, space.domain, out_dtype=space.dtype)
            single = wrapped([0.25, 1.0])
            ctx.eq('single-point-value', single, h(0.25, 1.0))
            pts = wrapped(np.array([[0.25, 0.75], [1.0, 2.0]]))
            ctx.eq('point-array-values', pts, [h(0.25, 1.0), h(0.75, 2.0)])
            func = wrapped
        else:
            raise ValueError(conv)
        el = space.element(func)
        ctx.fact('element-in-space', el in space)
        # the element owns its values: writing into it must not reach the grid of the space
        ctx.fact('element-does-not-share-memory-with-the-grid',
                 not any(np.shares_memory(np.asarray(el.asarray()).view(np.ndarray), cvec)
                         for cvec in space.grid.coord_vectors))
        ctx.eq('values-at-grid-points', el, [v + bump for v in ref] if bump else ref)
        return
    if kind in ('interp1', 'affine1'):
        symbolic_nodes = cv == 'symbolic'
        if symbolic_nodes:
            # strictly increasing symbolic coordinate vector (3 nodes)
            cva = ctx.array('c', (3,), 'float64')
            cv = list(flat(cva))
            for i in range(2):
                ctx.assume(cv[i] < cv[i + 1])
        cv = cv or CV1
        n = len(cv)
        if kind == 'interp1':
            f = ctx.array('f', (n,), 'float64')
            fl = list(flat(f))
        else:
            a, b = ctx.real('a'), ctx.real('b')
            fl = [a * c + b for c in cv]
            from symnp.sarray import wrap
            f = wrap(np.array(fl, dtype=object), np.dtype('float64')) if ctx.sym else np.array(fl, dtype=float)
        mk = du.nearest_interpolator if scheme == 'nearest' else du.linear_interpolator
        interp = mk(f, [cva if symbolic_nodes else np.array(cv)])
        x = ctx.real('x')
        ctx.assume(x >= cv[0])
        ctx.assume(x <= cv[-1])
        got = interp(x)
        if scheme == 'nearest':
            ref = fl[nearest_1d(cv, x, fl)]
        else:
            i, w = linear_weights_1d(cv, x)
            ref = (1 - w) * fl[i] + w * fl[i + 1]
        ctx.eq('value', got, ref + bump)
        if kind == 'affine1' and scheme == 'linear':
            ctx.eq('exact-on-affine', got, a * x + b)
        # node reproduction and independence of the calling convention
        nodes = interp(cva if symbolic_nodes else np.array(cv))
        ctx.eq('node-reproduction', nodes, fl)
        x2 = ctx.real('x2')
        ctx.assume(x2 >= cv[0])
        ctx.assume(x2 <= cv[-1])
        from symnp.sarray import wrap as _w
        arr = _w(np.array([x, x2], dtype=object), np.dtype('float64')) if ctx.sym else np.array([x, x2])
        both = interp(arr)
        ctx.eq('array-call=single-calls', both, [interp(x), interp(x2)])
        o = ctx.array('o', (2,), 'float64', garbage=True)
        ret = interp(arr, out=o)
        ctx.eq('out-call=single-calls', o, [interp(x), interp(x2)])
        return
    if kind == 'fixedpoints':
        # symbolic values of a narrower dtype, concrete float64 evaluation points at and next to nodes and ties:
        # the points must not be rounded to the value dtype
        n = len(cv)
        f = ctx.array('f', (n,), dtype)
        fl = list(flat(f))
        mk = du.nearest_interpolator if scheme == 'nearest' else du.linear_interpolator
        interp = mk(f, [np.array(cv)])
        pts = []
        for i in range(n):
            pts += [cv[i]]
            if i + 1 < n:
                m = (cv[i] + cv[i + 1]) / 2
                d = (cv[i + 1] - cv[i]) * 1e-7
                pts += [cv[i] + d, m - d, m, m + d, cv[i + 1] - d]
        ref = []
        for x in pts:
            if scheme == 'nearest':
                ref.append(fl[nearest_1d(cv, x, fl)])
            else:
                i, w = linear_weights_1d(cv, x)
                ref.append((1 - w) * fl[i] + w * fl[i + 1])
        got = interp(np.array(pts))
        # results of a single precision dtype cannot be compared more finely than its resolution
        tol = (1e-9, 8) if dtype == 'float64' else (1e-5, 8)
        ctx.eq('values(point-array)', got, [r + bump for r in ref] if bump else ref, tol=tol)
        ctx.eq('values(single-points)', [interp(x) for x in pts], ref, tol=tol)
        ctx.eq('node-reproduction', interp(np.array(cv)), fl)
        return
    if kind == 'outside1':
        cv = cv or CV1
        f = ctx.array('f', (len(cv),), 'float64')
        F = np.asarray(f, dtype=object) if ctx.sym else f
        interp = (du.nearest_interpolator if scheme == 'nearest' else du.linear_interpolator)(f, [np.array(cv)])
        x = ctx.real('x')
        ctx.assume(x >= cv[0] - (cv[1] - cv[0]))
        ctx.assume(x <= cv[-1] + (cv[-1] - cv[-2]))
        ctx.eq('value', interp(x), ref_interp([cv], [scheme], F, [x]) + bump)
        if scheme == 'linear':
            ctx.eq('zero-at-the-virtual-next-node', interp(np.array([cv[0] - (cv[1] - cv[0]), cv[-1] + cv[-1] - cv[-2]])),
                   [0, 0])
        return
    if kind == 'outside2':
        cvs = CV2
        f = ctx.array('f', (3, 3), 'float64')
        F = np.asarray(f, dtype=object) if ctx.sym else f
        for scheme in (['linear', 'linear'], ['nearest', 'linear'], ['nearest', 'nearest']):
            interp = du.per_axis_interpolator(f, [np.array(c) for c in cvs], scheme)
            pts = [[-0.25, 0.5], [1.75, 2.5], [-0.5, -1.5], [0.5, -1.25], [1.6, 0.0]]
            ctx.eq('%s/values' % '+'.join(scheme), interp(np.array(pts).T),
                   [ref_interp(cvs, scheme, F, p) for p in pts], tol=(1e-9, 8))
        return
    if kind == 'interp3':
        cvs = [[0.0, 1.0, 1.5], [-1.0, 0.0], [0.0, 0.25, 1.0]]
        f = ctx.array('f', (3, 2, 3), 'float64')
        F = np.asarray(f, dtype=object) if ctx.sym else f
        interp = du.per_axis_interpolator(f, [np.array(c) for c in cvs], scheme)
        x = [ctx.real('x%d' % k) for k in range(3)]
        for ax in range(3):
            ctx.assume(x[ax] >= cvs[ax][0])
            ctx.assume(x[ax] <= cvs[ax][-1])
        ctx.eq('value', interp(x), ref_interp(cvs, scheme, F, x) + bump)
        return
    if kind == 'deform':
        from odl.deform import linear_deform
        if nd == 1:
            space = odl.uniform_discr(0, 1, 5)
            disp = [[0.0, 0.05, -0.2, -0.1, 0.15]]
        else:
            space = odl.uniform_discr([0, 0], [1, 2], (3, 2))
            disp = [[[0.0, 0.1], [-0.3, 0.25], [0.2, -0.1]], [[0.3, -0.6], [0.0, 0.5], [-1.0, 0.45]]]
        templ = ctx.element(space, 't')
        F = np.asarray(flat(templ), dtype=object).reshape(space.shape) if ctx.sym else templ.asarray()
        # the displacement is concrete data (linear_deform adds it in place to a plain float array of points)
        from symnp import proxy
        was = proxy.STATE.armed
        proxy.STATE.armed = False
        try:
            if forder:
                # displacement components stored in Fortran order (same values)
                d = space.tangent_bundle.element([space.element(np.asfortranarray(np.array(c_, dtype=float)))
                                                  for c_ in disp])
            else:
                d = space.tangent_bundle.element(disp)
        finally:
            proxy.STATE.armed = was
        got = linear_deform(templ, d, interp=scheme)
        cvs = [list(v) for v in space.grid.coord_vectors]
        schemes = [scheme] * nd if isinstance(scheme, str) else scheme
        ref = []
        for idx in np.ndindex(space.shape):
            p = [cvs[ax][idx[ax]] + np.asarray(disp[ax])[idx] for ax in range(nd)]
            ref.append(ref_interp(cvs, schemes, F, p))
        ctx.eq('I(x+v(x))', got, [r + bump for r in ref] if bump else ref, tol=(1e-9, 8))
        op = odl.deform.LinDeformFixedDisp(d, templ_space=space, interp=scheme)
        ctx.eq('LinDeformFixedDisp', op(templ), ref, tol=(1e-9, 8))
        return
    if kind == 'interp2':
        cvs = CV2
        f = ctx.array('f', (3, 3), 'float64')
        F = np.asarray(f, dtype=object) if ctx.sym else f
        interp = du.per_axis_interpolator(f, [np.array(c) for c in cvs], scheme)
        x = [ctx.real('x0'), ctx.real('x1')]
        for ax in range(2):
            ctx.assume(x[ax] >= cvs[ax][0])
            ctx.assume(x[ax] <= cvs[ax][-1])
        got = interp(x)
        # reference: tensor product of the per-axis rules
        terms = [[], []]
        for ax in range(2):
            if scheme[ax] == 'nearest':
                terms[ax] = [(nearest_1d(cvs[ax], x[ax], None), 1)]
            else:
                i, w = linear_weights_1d(cvs[ax], x[ax])
                terms[ax] = [(i, 1 - w), (i + 1, w)]
        ref = 0
        for (i, wi), (j, wj) in itertools.product(*terms):
            ref = ref + wi * wj * F[i, j]
        ctx.eq('value', got, ref + bump)
        mesh = interp((np.array(cvs[0])[:, None], np.array(cvs[1])[None, :]))
        ctx.eq('node-reproduction(mesh)', mesh, F)
        return
    if kind == 'grid-alias':
        # multi-step: an element sampled from a coordinate function is updated in place; the grid of the space and
        # later samples must not change (concrete facts; shapes with a single non-degenerate axis)
        from symnp import proxy
        was, proxy.STATE.armed = proxy.STATE.armed, False
        try:
            for shape in ((4,), (3, 1), (1, 3), (1, 4, 1), (2, 3)):
                ndm = len(shape)
                space = odl.uniform_discr([0.0] * ndm, [1.0] * ndm, shape)
                before = [np.array(v, copy=True) for v in space.grid.coord_vectors]
                for k in range(ndm):
                    el = space.element(lambda x, k=k: x[k])
                    el *= 0.5
                    el += 0.125
                    el.asarray()[...] = 0.375
                now = space.grid.coord_vectors
                ctx.fact('%s/grid-unchanged' % 'x'.join(map(str, shape)),
                         all(np.array_equal(a, b) for a, b in zip(before, now)),
                         'grid now %s, was %s' % ([list(v) for v in now], [list(v) for v in before]))
                samp = space.element(lambda x: sum(x[j] * (j + 1) for j in range(ndm)))
                want = sum(np.asarray(v).reshape([-1 if a == j else 1 for a in range(ndm)]) * (j + 1)
                           for j, v in enumerate(before))
                ctx.fact('%s/later-samples-at-the-original-nodes' % 'x'.join(map(str, shape)),
                         np.allclose(samp.asarray(), np.broadcast_to(want, shape)))
        finally:
            proxy.STATE.armed = was
        return
    if kind == 'conventions':
        cvs = CV2
        f = ctx.array('f', (3, 3), 'float64')
        for scheme in ('nearest', 'linear'):
            interp = (du.nearest_interpolator if scheme == 'nearest' else du.linear_interpolator)(
                f, [np.array(c) for c in cvs])
            p = [[0.25, 1.25], [-0.5, 1.0]]          # two concrete points inside the hull
            single = [interp([p[0][k], p[1][k]]) for k in range(2)]
            arr = interp(np.array(p))
            ctx.eq('%s/point-array=single-points' % scheme, arr, single)
            mesh = interp((np.array(p[0])[:, None], np.array(p[1])[None, :]))
            grid = [interp([a, b]) for a in p[0] for b in p[1]]
            ctx.eq('%s/mesh=single-points' % scheme, mesh, grid)
            o = ctx.array('o_' + scheme, (2,), 'float64', garbage=True)
            interp(np.array(p), out=o)
            ctx.eq('%s/out=single-points' % scheme, o, single)
            # a mesh tuple of FULL coordinate arrays that is not a tensor product (a sheared lattice)
            m0 = np.array([[0.25, 0.75], [0.5, 1.25]])
            m1 = np.array([[-0.5, 0.25], [1.0, 0.5]])
            dense = interp((m0, m1))
            ctx.eq('%s/dense-non-tensor-mesh=single-points' % scheme, dense,
                   [interp([m0[i, j], m1[i, j]]) for i in range(2) for j in range(2)])
            ctx.eq('%s/dense-non-tensor-mesh=point-array' % scheme, dense,
                   interp(np.array([m0.ravel(), m1.ravel()])))
        return
    if kind == 'resampling':
        nd = len(scheme)
        shp = (2, 3, 2)[:nd]
        tshp = (3, 2, 3)[:nd]
        # different cell sizes per axis
        mx = [1.0, 3.0, 0.5][:nd]
        dom = odl.uniform_discr([0.0] * nd, mx, shp)
        ran = odl.uniform_discr([0.0] * nd, mx, tshp)
        if cv == 'same-shape':
            # same shape, same domain, different node placement: the grids do NOT coincide
            shp = tshp = (4, 3)[:nd]
            dom = odl.uniform_discr([0.0] * nd, mx, shp, nodes_on_bdry=True)
            ran = odl.uniform_discr([0.0] * nd, mx, tshp)
        op = odl.Resampling(dom, ran, interp=scheme if nd > 1 else scheme[0])
        x = ctx.element(dom, 'x')
        X = np.asarray(flat(x), dtype=object).reshape(shp) if ctx.sym else x.asarray()
        got = op(x)
        src = [list(v) for v in dom.grid.coord_vectors]
        tgt = [list(v) for v in ran.grid.coord_vectors]
        ref = []
        for pt in itertools.product(*tgt):
            terms = []
            for ax in range(nd):
                c, q = src[ax], pt[ax]
                if scheme[ax] == 'nearest':
                    terms.append([(nearest_1d(c, q, None), 1.0)])
                else:
                    if q <= c[0]:
                        terms.append([(0, 1.0)]) if False else None
                    # points outside the hull of the source nodes (half a cell): documented linear ramp to zero;
                    # compared only inside the hull
                    if q < c[0] or q > c[-1]:
                        terms.append(None)
                    else:
                        i, w = linear_weights_1d(c, q) if len(c) > 1 else (0, 0.0)
                        terms.append([(i, 1 - w), (min(i + 1, len(c) - 1), w)])
            if any(t is None for t in terms):
                ref.append(None)
                continue
            val = 0
            for combo in itertools.product(*terms):
                w = 1.0
                idx = []
                for (i, wi) in combo:
                    w *= wi
                    idx.append(i)
                if w != 0:
                    val = val + w * X[tuple(idx)]
            ref.append(val)
        gl = list(flat(got))
        sel = [k for k, r in enumerate(ref) if r is not None]
        ctx.fact('some-target-points-inside-hull', len(sel) > 0)
        ctx.eq('values-inside-hull', [gl[k] for k in sel], [ref[k] + bump for k in sel] if bump else [ref[k] for k in sel])
        return
    raise ValueError(kind)
