"""C06 — derivative(x) is the Frechet derivative of the operator at x.

Technique: forward-mode AD of the real _call (dual-number entries x_i + eps d_i); the tangent of op(x + eps d)
is the exact directional derivative of the discrete map and is compared, for all x and d, with the terms of the
real op.derivative(x)(d).  Combinator plumbing for *all* operators: leaves with uninterpreted values A_i(x) and
uninterpreted Jacobians J_ij(x) (dual rule: tangent_i = sum_j J_ij(x) d_j), so chain, sum and product rules at
the correct inner points are decided modulo congruence for every leaf behaviour."""
import math
import random

import numpy as np
import odl
from odl.set.sets import Field

from harness import registry as reg
from harness import c04
from harness.c09 import dual_element
from symnp.ctx import flat
from symnp.scalars import SD, SV, is_symscalar

EXPLANATION = ('C06: the real operator code is executed on dual numbers, giving the exact directional derivative of '
               'x -> op(x); z3 decides equality with op.derivative(x)(d) for all x, d (non-differentiable points '
               'excluded as path conditions); derivative(x) must be linear with the right domain/range; expression '
               'trees over leaves with uninterpreted Jacobians decide the chain/sum/product rules for all leaves.')
BOUNDS = {'quick': {'recipes': 'every registry recipe with a derivative (real spaces, 2-12 entries)',
                    'trees': 'all depth <= 1 + 200 seeded depth-2 trees over 2 nonlinear leaves with uninterpreted '
                             'Jacobians and one symbolic linear leaf'},
          'thorough': {'trees': '2500 depth-2 + 500 depth-3 seeded trees'}}
OUTSIDE = ['complex-valued operators (ComplexModulus etc.: derivative in the R^2 sense not encoded with dual numbers)',
           'non-differentiable points', 'LinDeformFixedTempl/Disp (exempt by the property)',
           'the finite-h rate of a central difference (the exact derivative is decided instead)']
ASSUMPTIONS = ['calculus rules of sqrt/exp/log/sin/cos/pow on dual numbers (trusted base of the AD)', 'paths selected only by an exact tie of a dual-number value (== shortcuts such as scalar == 0, and kinks of abs/max/sign) are measure-zero and excluded']
SETTINGS = {'strict_definedness': False, 'max_paths': 200, 'tol': (1e-9, 2), 'obligation_timeout_ms': 20000, 'conc_rtol': 2e-4}
CFG_TIMEOUT = {'quick': 240, 'thorough': 900}


# ---------------------------------------------------- leaves with Jacobians
def _default_fun(i, n):
    def g(*args):
        return 0.25 + sum(0.5 ** (j + 1) * math.sin(float(a) + j + i) for j, a in enumerate(args))
    return g


def _default_jac(i, j):
    def g(*args):
        return 0.5 ** (j + 1) * math.cos(float(args[j]) + j + i)
    return g


class UFOpD(odl.Operator):
    """Nonlinear leaf: values A_i(x) and Jacobian entries J_ij(x) uninterpreted (symbolic mode);
    a fixed smooth function with its analytic Jacobian in concrete mode."""

    def __init__(self, ctx, name, space, inplace=False):
        super(UFOpD, self).__init__(space, space, linear=False)
        n = space.size
        self.n = n
        if ctx.sym:
            self.fs = [ctx.uf('%s%d' % (name, i), n) for i in range(n)]
            self.js = [[ctx.uf('%sJ%d%d' % (name, i, j), n) for j in range(n)] for i in range(n)]
        else:
            self.fs = [_default_fun(i, n) for i in range(n)]
            self.js = [[_default_jac(i, j) for j in range(n)] for i in range(n)]
        if inplace:
            self._call_in_place = self._inplace

    def values(self, entries):
        if any(isinstance(e, SD) for e in entries):
            vs = [e.v if isinstance(e, SD) else e for e in entries]
            ts = [e.t if isinstance(e, SD) else 0 for e in entries]
            out = []
            for i in range(self.n):
                val = self.fs[i](*vs)
                tan = sum((self.js[i][j](*vs) * ts[j] for j in range(self.n)), 0)
                out.append(SD(val, tan))
            return out
        return [f(*entries) for f in self.fs]

    def _call(self, x):
        return self.range.element(c04._as_array(self.values(list(flat(x))), False))

    def derivative(self, x):
        xs = list(flat(x))
        J = np.empty((self.n, self.n), dtype=object)
        for i in range(self.n):
            for j in range(self.n):
                J[i, j] = self.js[i][j](*xs)
        if not any(is_symscalar(v) for v in J.ravel()):
            J = J.astype(float)
        else:
            from symnp.sarray import wrap
            J = wrap(J, np.dtype('float64'))
        return odl.MatrixOperator(J, domain=self.domain, range=self.range)


def directional_derivative(ctx, op, x, d):
    if ctx.sym:
        if isinstance(op.domain, Field):
            xd = SD(x, d)
        else:
            xd = dual_element(ctx, op.domain, x, d)
        val = op(xd)
        out = []
        for v in flat(val):
            out.append(v.t if isinstance(v, SD) else 0 * flat(d)[0])
        return out
    h = 1e-6
    if isinstance(op.domain, Field):
        return list(flat((op(x + h * d) - op(x - h * d)) / (2 * h)))
    return list(flat((op(x + h * d) - op(x - h * d)) / (2 * h)))


def configs(tier, seed):
    out = []
    for r in reg.RECIPES:
        if not r.deriv or r.cplx or (r.heavy and tier == 'quick'):
            continue
        out.append(('deriv/' + r.name, dict(kind='recipe', recipe=r.name)))
    # functionals are operators into the field: derivative(x)(d) of derived functionals (chain rules through
    # gradients) -- same recipes as C09
    from harness import funcs
    for cid, rn, sk in funcs.instances(tier, harness='C06'):
        if rn.startswith('derived/') and sk != 'field':
            out.append(('fderiv/' + cid, dict(kind='fderiv', recipe=rn, sk=sk)))
    rnd = random.Random(seed)
    unary = tuple(u for u in c04.UNARY)
    d1 = [t for t in c04.gen_trees(1, c04.OP_LEAVES, unary, c04.BINARY) if len(t) > 1]
    d2 = [t for t in c04.gen_trees(2, c04.OP_LEAVES, unary, c04.BINARY) if t not in set(d1) and len(t) > 1]
    sel = d1 + rnd.sample(d2, 200 if tier == 'quick' else 2500)
    if tier == 'thorough':
        sel += [c04._random_tree(rnd, 3, c04.OP_LEAVES, unary, c04.BINARY) for _ in range(500)]
    sel.append(('pwprod', ('A',), ('B',)))
    sel.append(('pwprod', ('sum', ('A',), ('L',)), ('comp', ('B',), ('A',))))
    chunk = 3
    for i in range(0, len(sel), chunk):
        out.append(('tree/%04d' % (i // chunk), dict(kind='tree', trees=[c04.tolist(t) for t in sel[i:i + chunk]])))
    return out


def canaries(tier, seed):
    return [('canary/deriv/Power', dict(kind='recipe', recipe='Power/rn/p=3')),
            ('canary/tree', dict(kind='tree', trees=[['comp', ['A'], ['B']]]))]


def _build(t, env):
    if t[0] == 'pwprod':
        return odl.OperatorPointwiseProduct(_build(t[1], env), _build(t[2], env))
    if len(t) == 1:
        return env[t[0]]
    # reuse the C04 builder for everything else (sub-trees may contain pwprod only at the top)
    return c04.build(t, env)


def case(ctx, kind, recipe=None, trees=None, sk=None):
    if kind == 'fderiv':
        from harness import funcs, c09
        r, f = funcs.build(ctx, recipe, sk)
        x = ctx.element(f.domain, 'x')
        d = ctx.element(f.domain, 'd')
        if r.pre is not None:
            r.pre(ctx, x)
        try:
            D = f.derivative(x)
        except NotImplementedError:
            ctx.fact('no-derivative-offered', True)
            return
        ctx.fact('derivative-is-linear', D.is_linear)
        try:
            dd = c09.directional_derivative(ctx, f, x, d)
        except NotImplementedError:
            ctx.fact('values-not-implemented', True)
            return
        ctx.eq('derivative(x)(d)=directional-derivative', D(d), dd if not ctx.canary else dd + 1)
        return
    if kind == 'recipe':
        r = reg.by_name(recipe)
        op = r.build(ctx)
        from harness.c03 import sym_input
        x = sym_input(ctx, op.domain, 'x')
        d = sym_input(ctx, op.domain, 'd')
        if r.pre is not None:
            r.pre(ctx, x)
        try:
            D = op.derivative(x)
        except NotImplementedError:
            ctx.fact('no-derivative-offered', True)
            return
        except ValueError as e:
            if 'not differentiable' in str(e):
                ctx.fact('documented-non-differentiable-point', True)
                return
            raise
        ctx.fact('derivative-is-linear', D.is_linear)
        ctx.fact('derivative-spaces', D.domain == op.domain and D.range == op.range,
                 'derivative: %r -> %r' % (D.domain, D.range))
        px = ctx.snapshot(x)
        lhs = D(d)
        rhs = directional_derivative(ctx, op, x, d)
        if ctx.canary:
            rhs = [v + 1 for v in rhs]
        ctx.eq('derivative(x)(d)=directional-derivative', lhs, rhs)
        ctx.eq('x-unchanged', x, px)
        if op.is_linear:
            ctx.eq('linear:derivative(x)(d)=op(d)', lhs, op(d))
        return
    sp = odl.rn(2)
    for i, tl in enumerate(trees):
        t = c04.totuple(tl)
        tag = '%d:%s' % (i, c04.tstr(t))
        s = ctx.real('s%d' % i)
        if c04._uses(t, 'div'):
            ctx.assume(s != 0)
        v = ctx.element(sp, 'v%d' % i)
        M = ctx.array('L%d' % i, (2, 2), 'float64')
        env = {'A': UFOpD(ctx, 'A%d_' % i, sp), 'B': UFOpD(ctx, 'B%d_' % i, sp, inplace=False),
               'L': odl.MatrixOperator(M, domain=sp, range=sp), 's': s, 'v': v}
        try:
            expr = _build(t, env)
        except (TypeError, ValueError) as e:
            ctx.fact('refused:%s/%s' % (type(e).__name__, tag), True)
            continue
        x = ctx.element(sp, 'x%d' % i)
        d = ctx.element(sp, 'd%d' % i)
        try:
            D = expr.derivative(x)
        except NotImplementedError:
            ctx.fact('no-derivative-offered/' + tag, True)
            continue
        ctx.fact('derivative-is-linear/' + tag, D.is_linear)
        rhs = directional_derivative(ctx, expr, x, d)
        if ctx.canary:
            rhs = [u + 1 for u in rhs]
        ctx.eq('chain-rule/' + tag, D(d), rhs)
