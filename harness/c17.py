"""C17 — NumPy ufuncs on elements behave like NumPy on the underlying arrays.

The numbers a ufunc produces on an object array are the engine's model, so this check is about ODL's
plumbing: which operands, which method, which axis/keywords, which out, which result space/dtype.
Real code: NumpyTensor.__array_ufunc__, DiscretizedSpaceElement.__array_ufunc__, ProductSpaceElement ufunc
support (__array__/__array_wrap__), Tensor.__array__/__array_wrap__, writable_array, odl.util.ufuncs.
Symbolic: entries.  Assertions: result terms = the same ufunc call on the raw arrays; result kind / shape /
dtype as NumPy's own (shadow) call says; out returned by identity and holding the result."""
import numpy as np
import odl

from symnp.ctx import flat
from symnp.scalars import EngineGap

EXPLANATION = ('C17: np.<ufunc>(...), .reduce, .accumulate, .outer, .at, .reduceat and the legacy x.ufuncs interface are '
               'executed on elements holding solver variables; z3 decides that the result terms equal those of the '
               'same call on the raw arrays; result type/space/shape/dtype are compared with NumPy\'s result on '
               'concrete arrays of the same dtype; out (element, tensor or ndarray, one or two outputs, with and '
               'without dtype=) must be returned by identity and hold the result.')
BOUNDS = {'quick': {'elements': 'rn(3), rn((2,2)), int64 tensor_space(3), uniform_discr 3 and (2,2), power spaces rn(2)^2, '
                    'rn(1)^1', 'ufuncs': 'negative absolute square sqrt exp sin sign conj | add subtract multiply divide '
                    'maximum minimum power | divmod (int)', 'methods': '__call__ reduce accumulate outer at reduceat',
                    'out': 'None / element / tensor / ndarray, partial outs for two-output ufuncs',
                    'keywords': 'axis, keepdims, dtype'}}
OUTSIDE = ['bitwise / frexp / ldexp / floating remainder / modf (no symbolic meaning in the engine): modf checked '
           'concretely for out plumbing only', 'string dtypes', 'calls in which NumPy would broadcast the element to a '
           'larger shape']
ASSUMPTIONS = ['memory sharing / asarray round trip / result types are concrete facts, not solver obligations']
SETTINGS = {'max_paths': 4000, 'tol': None, 'merge_abs': True, 'int_mode': False}
CFG_TIMEOUT = {'quick': 180, 'thorough': 600}

UNARY = ('negative', 'absolute', 'square', 'sqrt', 'exp', 'sin', 'sign', 'conj', 'positive')
BINARY = ('add', 'subtract', 'multiply', 'divide', 'maximum', 'minimum')
SPACES = {
    'rn3': lambda: odl.rn(3),
    'rn2x2': lambda: odl.rn((2, 2)),
    'int3': lambda: odl.tensor_space(3, dtype='int64'),
    'discr3': lambda: odl.uniform_discr(0, 1, 3),
    'discr2x2': lambda: odl.uniform_discr([0, 0], [1, 1], (2, 2)),
    'f32': lambda: odl.rn(3, dtype='float32'),
}


def configs(tier, seed):
    out = []
    for sk in ('rn3', 'rn2x2', 'discr3', 'discr2x2', 'f32'):
        for u in UNARY:
            out.append(('call/%s/%s' % (sk, u), dict(kind='unary', sk=sk, ufunc=u)))
        for u in BINARY:
            out.append(('call/%s/%s' % (sk, u), dict(kind='binary', sk=sk, ufunc=u)))
        for u in ('add', 'multiply', 'maximum'):
            out.append(('methods/%s/%s' % (sk, u), dict(kind='methods', sk=sk, ufunc=u)))
        out.append(('legacy/%s' % sk, dict(kind='legacy', sk=sk)))
        out.append(('two-outputs/%s' % sk, dict(kind='twoout', sk=sk)))
    for u in ('add', 'subtract', 'multiply', 'negative', 'absolute', 'maximum'):
        out.append(('call/int3/%s' % u, dict(kind='binary' if u in BINARY else 'unary', sk='int3', ufunc=u,
                                             _settings={'int_mode': True})))
    out.append(('two-outputs/int3/divmod', dict(kind='divmod', sk='int3', _settings={'int_mode': True})))
    for pk in ('rn2^2', 'rn1^1', 'discr2^2', 'rn(1,1)^1'):
        out.append(('pspace/%s' % pk, dict(kind='pspace', sk=pk)))
    out.append(('memory/wrapping', dict(kind='memory')))
    # the whole legacy interface against NumPy on IEEE special values (concrete facts: NaN/inf have no real meaning)
    for sk in ('rn', 'discr', 'pspace', 'f32'):
        out.append(('legacy-all/%s' % sk, dict(kind='legacy-all', sk=sk)))
    return out


def canaries(tier, seed):
    return [('canary/call', dict(kind='binary', sk='rn3', ufunc='add')),
            ('canary/methods', dict(kind='methods', sk='discr3', ufunc='add'))]


def raw(x):
    """the raw array of an element (same memory)"""
    if hasattr(x, 'tensor'):
        return x.tensor.data
    return x.data


def same_kind(ctx, label, res, space, np_res):
    """result wrapped in a space of the same kind with NumPy's shape and dtype (or a scalar / plain array when NumPy
    returns a scalar)"""
    np_res = np.asarray(np_res)
    if np_res.ndim == 0:
        ctx.fact(label + '/scalar', not hasattr(res, 'space') or res.shape == (), 'got %r' % type(res))
        return
    ok = hasattr(res, 'space')
    if ok:
        ok = tuple(res.shape) == tuple(np_res.shape) and np.dtype(getattr(res.dtype, 'dtype', res.dtype)) == np_res.dtype
        if hasattr(space, 'partition') and tuple(np_res.shape) == tuple(space.shape):
            ok = ok and hasattr(res.space, 'partition')
    ctx.fact(label + '/space-kind-shape-dtype', ok,
             'got %r (%s, %s), numpy gives shape %s dtype %s' % (type(res).__name__, getattr(res, 'shape', None),
                                                                getattr(res, 'dtype', None), np_res.shape, np_res.dtype))


def concrete_like(space, k=0):
    """a concrete array of the space's shape/dtype (for NumPy's own result type)"""
    n = int(np.prod(space.shape))
    return (np.arange(1, n + 1, dtype=float) * (k + 1) / 4.0).reshape(space.shape).astype(space.dtype)


def _disarm():
    from symnp import proxy
    proxy.STATE.armed = False


def _legacy_all(ctx, sk):
    from symnp import proxy
    import odl.util.ufuncs as U
    was, proxy.STATE.armed = proxy.STATE.armed, False
    try:
        dt = 'float32' if sk == 'f32' else 'float64'
        a = np.array([1.5, np.nan, -2.0, 0.0, np.inf, 0.25], dtype=dt)
        b = np.array([np.nan, 2.0, 3.0, -0.0, 1.0, -np.inf], dtype=dt)
        if sk == 'pspace':
            sp = odl.ProductSpace(odl.rn(3), 2)
            mk = lambda v: sp.element([v[:3], v[3:]])                                   # noqa
            arr = lambda e: np.concatenate([np.asarray(p_) for p_ in e.parts])          # noqa
        else:
            sp = odl.uniform_discr(0, 1, 6, dtype=dt) if sk == 'discr' else odl.rn(6, dtype=dt)
            mk = lambda v: sp.element(v)                                                 # noqa
            arr = lambda e: np.asarray(e)                                                # noqa
        for name, n_in, n_out, _ in U.UFUNCS:
            npf = getattr(np, name)
            x, y = mk(a), mk(b)
            with np.errstate(all='ignore'):
                try:
                    want = npf(a) if n_in == 1 else npf(a, b)
                except TypeError:
                    continue                    # not defined for floats (bitwise_*, ...)
                try:
                    got = getattr(x.ufuncs, name)() if n_in == 1 else getattr(x.ufuncs, name)(y)
                except (TypeError, ValueError, AttributeError) as exc:
                    if sk == 'pspace':
                        continue                # product spaces offer a subset of the interface
                    ctx.fact('legacy/%s/callable' % name, False, '%s: %s' % (type(exc).__name__, exc))
                    continue
            wants = want if isinstance(want, tuple) else (want,)
            gots = got if isinstance(got, tuple) else (got,)
            ok = len(wants) == len(gots) and all(
                np.array_equal(arr(g) if hasattr(g, 'space') else np.asarray(g), w, equal_nan=True)
                for g, w in zip(gots, wants))
            ctx.fact('legacy/%s=np.%s' % (name, name), ok,
                     'got %s expected %s' % ([arr(g) if hasattr(g, 'space') else g for g in gots], wants))
            if n_out == 1 and sk != 'pspace' and np.asarray(want).dtype == np.dtype(dt):
                o = sp.element()
                with np.errstate(all='ignore'):
                    ret = getattr(x.ufuncs, name)(out=o) if n_in == 1 else getattr(x.ufuncs, name)(y, out=o)
                ctx.fact('legacy/%s/out-returned' % name, ret is o)
                ctx.fact('legacy/%s/out-values' % name, np.array_equal(arr(o), want, equal_nan=True),
                         'got %s expected %s' % (arr(o), want))
            ctx.fact('legacy/%s/operands-unchanged' % name,
                     np.array_equal(arr(x), a, equal_nan=True) and np.array_equal(arr(y), b, equal_nan=True))
    finally:
        proxy.STATE.armed = was


def case(ctx, kind, sk=None, ufunc=None):
    if kind == 'legacy-all':
        return _legacy_all(ctx, sk)
    bump = 1 if ctx.canary else 0
    if kind in ('memory', 'twoout'):
        _disarm()           # concrete facts only: ordinary arrays, no symbolic creation
    if kind == 'memory':
        for nm, mk in sorted(SPACES.items()):
            sp = mk()
            arr = np.ones(sp.shape, dtype=sp.dtype)
            el = sp.element(arr)
            ctx.fact('wrap-shares-memory/%s' % nm, np.shares_memory(arr, el.asarray()))
            ctx.fact('asarray-round-trip/%s' % nm, np.array_equal(sp.element(el.asarray()).asarray(), arr))
            el2 = sp.element(arr.astype('float16') if arr.dtype.kind == 'f' else arr.astype('int32'))
            ctx.fact('dtype-conversion-copies/%s' % nm, el2.dtype == sp.dtype)
            # any array of the right shape and dtype is wrapped without copying, whatever its memory layout, so
            # that a ufunc writing into the wrapper reaches the array
            if len(sp.shape) == 2:
                layouts = {'fortran': np.asfortranarray(np.ones(sp.shape, dtype=sp.dtype)),
                           'transposed': np.ones(sp.shape[::-1], dtype=sp.dtype).T,
                           'strided': np.ones((2 * sp.shape[0], 2 * sp.shape[1]), dtype=sp.dtype)[::2, ::2]}
            else:
                layouts = {'strided': np.ones(2 * sp.shape[0], dtype=sp.dtype)[::2]}
            for lay, a2 in sorted(layouts.items()):
                w = sp.element(a2)
                ctx.fact('wrap-shares-memory/%s/%s' % (nm, lay), np.shares_memory(a2, w.asarray()))
                if sp.dtype.kind == 'f':
                    src = sp.element(np.full(sp.shape, 3.0, dtype=sp.dtype))
                    np.multiply(src, 2, out=w)
                    ctx.fact('out=wrapper-reaches-the-array/%s/%s' % (nm, lay), bool(np.all(a2 == 6.0)),
                             'array holds %s' % a2.ravel()[:4])
        return
    if kind == 'pspace':
        base = {'rn2^2': (odl.rn(2), 2), 'rn1^1': (odl.rn(1), 1), 'discr2^2': (odl.uniform_discr(0, 1, 2), 2),
                'rn(1,1)^1': (odl.rn((1, 1)), 1)}[sk]
        sp = odl.ProductSpace(base[0], base[1])
        x = ctx.element(sp, 'x')
        y = ctx.element(sp, 'y')
        px, py = ctx.snapshot(x), ctx.snapshot(y)
        for u in ('negative', 'square', 'absolute'):
            r = getattr(np, u)(x)
            ctx.fact('%s/result-in-space' % u, r in sp, 'got %r' % (type(r),))
            ctx.eq('%s/values' % u, r, [getattr(np, u)(v) + bump for v in px] if u != 'absolute' else
                   [abs(v) + bump for v in px])
            lr = getattr(x.ufuncs, u)()
            ctx.fact('%s/legacy-in-space' % u, lr in sp)
            ctx.eq('%s/legacy' % u, lr, r)
        for u in ('add', 'multiply', 'subtract'):
            r = getattr(np, u)(x, y)
            ctx.fact('%s/result-in-space' % u, r in sp, 'got %r' % (type(r),))
            ref = [getattr(np, u)(a, b) for a, b in zip(px, py)]
            ctx.eq('%s/values' % u, r, ref)
            o = ctx.garbage(sp, 'o_' + u)
            try:
                ret = getattr(np, u)(x, y, out=o)
            except TypeError as e:
                ctx.fact('%s/out=element-supported' % u, False, 'raised TypeError: %s' % e)
            else:
                ctx.fact('%s/out-returned' % u, ret is o)
                ctx.eq('%s/out-values' % u, o, ref)
            ol = ctx.garbage(sp, 'ol_' + u)
            ret = getattr(x.ufuncs, u)(y, out=ol)
            ctx.fact('%s/legacy-out-returned' % u, ret is ol)
            ctx.eq('%s/legacy-out-values' % u, ol, ref)
            arr = np.asarray(y)
            r2 = getattr(np, u)(arr, x)
            ctx.eq('%s/array-first' % u, r2, [getattr(np, u)(b, a) for a, b in zip(px, py)])
        s = np.add.reduce(x, axis=None) if False else None
        ctx.eq('x-unchanged', x, px)
        return
    sp = SPACES[sk]()
    x = ctx.element(sp, 'x')
    px = ctx.snapshot(x).reshape(sp.shape)
    cx = concrete_like(sp)
    if kind == 'unary':
        uf = getattr(np, ufunc)
        if ufunc == 'sqrt':
            for v in flat(x):
                ctx.assume(v > 0)
        ref = uf(px.reshape(sp.shape) if not ctx.sym else raw(x))
        ref = ctx.snapshot(ref)
        with np.errstate(all='ignore'):
            npres = uf(cx)
        res = uf(x)
        same_kind(ctx, 'call', res, sp, npres)
        ctx.eq('call/values', res, ref + bump)
        # out given as element / tensor / ndarray
        for ok in ('element', 'tensor', 'ndarray'):
            rs = res.space if hasattr(res, 'space') else sp
            o = ctx.garbage(rs, 'o_' + ok)
            tgt = o if ok == 'element' else (o.tensor if hasattr(o, 'tensor') and ok == 'tensor' else raw(o))
            if ok == 'tensor' and not hasattr(o, 'tensor'):
                continue
            ret = uf(x, out=tgt)
            ctx.fact('out=%s/returned-by-identity' % ok, ret is tgt, 'returned %r' % type(ret))
            ctx.eq('out=%s/values' % ok, o, ref)
        if sp.dtype == np.dtype('float32') or sk == 'rn3':
            # dtype= keyword different from the dtype of the given ndarray out
            o32 = ctx.array('o32', sp.shape, 'float32', garbage=True)
            ret = uf(x, out=o32, dtype='float64')
            ctx.fact('out+dtype/returned-by-identity', ret is o32)
            ctx.eq('out+dtype/values', o32, ref)
        ctx.eq('x-unchanged', x, px)
        return
    if kind == 'binary':
        uf = getattr(np, ufunc)
        y = ctx.element(sp, 'y')
        py = ctx.snapshot(y).reshape(sp.shape)
        if ufunc == 'divide':
            for v in flat(y):
                ctx.assume(v != 0)
        ref = ctx.snapshot(uf(raw(x), raw(y)))
        with np.errstate(all='ignore'):
            npres = uf(cx, concrete_like(sp, 1))
        res = uf(x, y)
        same_kind(ctx, 'call', res, sp, npres)
        ctx.eq('call/values', res, ref + bump)
        # mixed operands in either order
        ctx.eq('elem-array/values', uf(x, raw(y)), ref)
        ctx.eq('array-elem/values', uf(raw(x), y), ref)
        same_kind(ctx, 'array-elem', uf(raw(x), y), sp, npres)
        a = ctx.real('a') if sp.dtype.kind == 'f' else ctx.integer('a')
        if ufunc == 'divide':
            ctx.assume(a != 0)
        ctx.eq('elem-scalar/values', uf(x, a), ctx.snapshot(uf(raw(x), a)))
        for ok in ('element', 'tensor', 'ndarray'):
            rs = res.space if hasattr(res, 'space') else sp
            o = ctx.garbage(rs, 'o_' + ok)
            if ok == 'tensor' and not hasattr(o, 'tensor'):
                continue
            tgt = o if ok == 'element' else (o.tensor if ok == 'tensor' else raw(o))
            ret = uf(x, y, out=tgt)
            ctx.fact('out=%s/returned-by-identity' % ok, ret is tgt, 'returned %r' % type(ret))
            ctx.eq('out=%s/values' % ok, o, ref)
        if sk in ('rn3', 'discr3'):
            o32 = ctx.array('o32', sp.shape, 'float32', garbage=True)
            ret = uf(x, y, out=o32, dtype='float64')
            ctx.fact('out+dtype/returned-by-identity', ret is o32)
            ctx.eq('out+dtype/values', o32, ref)
        ctx.eq('x-unchanged', x, px)
        ctx.eq('y-unchanged', y, py)
        return
    if kind == 'methods':
        uf = getattr(np, ufunc)
        ax_opts = [dict(), dict(axis=0)] + ([dict(axis=1), dict(axis=None)] if len(sp.shape) > 1 else [])
        if not hasattr(sp, 'partition'):
            # (discretized spaces document a ValueError for keepdims=True)
            ax_opts += [dict(axis=0, keepdims=True)]
        for kw in ax_opts:
            tag = ','.join('%s=%s' % kv for kv in sorted(kw.items())) or 'default'
            ref = uf.reduce(raw(x), **kw)
            with np.errstate(all='ignore'):
                npres = uf.reduce(cx, **kw)
            res = uf.reduce(x, **kw)
            same_kind(ctx, 'reduce/%s' % tag, res, sp, npres)
            ctx.eq('reduce/%s/values' % tag, res, ctx.snapshot(ref) + bump)
        ref = uf.accumulate(raw(x), axis=0)
        res = uf.accumulate(x, axis=0)
        same_kind(ctx, 'accumulate', res, sp, uf.accumulate(cx, axis=0))
        ctx.eq('accumulate/values', res, ref)
        o = ctx.garbage(sp, 'oacc')
        ret = uf.accumulate(x, axis=0, out=o)
        ctx.fact('accumulate/out-returned', ret is o)
        ctx.eq('accumulate/out-values', o, ref)
        onp = ctx.array('oacc_np', sp.shape, sp.dtype, garbage=True)
        ret = uf.accumulate(x, axis=0, out=onp)
        ctx.fact('accumulate/ndarray-out-returned', ret is onp)
        ctx.eq('accumulate/ndarray-out-values', onp, ref)
        if sk in ('rn3', 'discr3'):
            o32 = ctx.array('oacc32', sp.shape, 'float32', garbage=True)
            ret = uf.accumulate(x, axis=0, out=o32, dtype='float64')
            ctx.fact('accumulate/out+dtype-returned', ret is o32)
            ctx.eq('accumulate/out+dtype-values', o32, ref)
            o1 = ctx.array('ored32', (), 'float32', garbage=True) if False else None
        y = ctx.element(sp, 'y')
        if len(sp.shape) == 1:
            ref = uf.outer(raw(x), raw(y))
            res = uf.outer(x, y)
            same_kind(ctx, 'outer', res, sp, uf.outer(cx, cx))
            ctx.eq('outer/values', res, ref)
            # outer with out= (a plain array of the outer shape): written into and returned
            oo = ctx.array('oouter', tuple(sp.shape) * 2, sp.dtype, garbage=True)
            ret = uf.outer(x, y, out=oo)
            ctx.fact('outer/ndarray-out-returned', ret is oo)
            ctx.eq('outer/ndarray-out-values', oo, ref)
            if not hasattr(sp, 'partition'):
                osp2 = odl.tensor_space(tuple(sp.shape) * 2, dtype=sp.dtype)
                oe = ctx.garbage(osp2, 'oouter_el')
                ret = uf.outer(x, y, out=oe)
                ctx.fact('outer/element-out-returned', ret is oe)
                ctx.eq('outer/element-out-values', oe, ref)
            if sp.dtype == np.dtype('float64') and ufunc in ('add', 'multiply'):
                # operands of different dtypes: NumPy's result type, not that of the first operand
                for odt in ('float32', 'complex128'):
                    osp = odl.rn(sp.shape, dtype=odt) if odt == 'float32' else odl.cn(sp.shape)
                    if hasattr(sp, 'partition'):
                        osp = odl.uniform_discr(sp.min_pt, sp.max_pt, sp.shape, dtype=odt)
                    y2 = ctx.element(osp, 'y_' + odt)
                    for first, second, tag in ((y2, x, '%s,float64' % odt), (x, y2, 'float64,%s' % odt)):
                        r2 = uf.outer(first, second)
                        npr = uf.outer(np.ones(sp.shape, dtype=first.dtype), np.ones(sp.shape, dtype=second.dtype))
                        same_kind(ctx, 'outer/%s' % tag, r2, sp, npr)
                        ctx.eq('outer/%s/values' % tag, r2, uf.outer(raw(first), raw(second)))
            if not hasattr(sp, 'partition'):
                # (discretized spaces document `reduceat` as not supported)
                ref = uf.reduceat(raw(x), [0, 2])
                ctx.eq('reduceat/values', uf.reduceat(x, [0, 2]), ref)
        # at: in-place on the element
        z = x.copy()
        zr = raw(x).copy()
        idx = [0, 0] if len(sp.shape) == 1 else ([0, 1], [1, 1])
        uf.at(zr, idx, 2 if sp.dtype.kind != 'f' else 0.5)
        uf.at(z, idx, 2 if sp.dtype.kind != 'f' else 0.5)
        ctx.eq('at/values', z, zr)
        ctx.eq('x-unchanged', x, px)
        return
    if kind == 'legacy':
        y = ctx.element(sp, 'y')
        for u in ('negative', 'square', 'absolute', 'sign'):
            ctx.eq('legacy/%s' % u, getattr(x.ufuncs, u)(), getattr(np, u)(x))
        for u in ('add', 'multiply', 'maximum', 'subtract'):
            ctx.eq('legacy/%s' % u, getattr(x.ufuncs, u)(y), ctx.snapshot(getattr(np, u)(raw(x), raw(y))) + bump)
            o = ctx.garbage(sp, 'ol_' + u)
            ret = getattr(x.ufuncs, u)(y, out=o)
            ctx.fact('legacy/%s/out-returned' % u, ret is o)
            ctx.eq('legacy/%s/out-values' % u, o, getattr(np, u)(raw(x), raw(y)))
        ctx.eq('legacy/sum', x.ufuncs.sum(), np.add.reduce(raw(x), axis=None))
        ctx.eq('legacy/prod', x.ufuncs.prod(), np.multiply.reduce(raw(x), axis=None))
        if sp.dtype.kind == 'f':
            ctx.eq('legacy/max', x.ufuncs.max(), np.maximum.reduce(raw(x), axis=None))
        return
    if kind == 'twoout':
        # out plumbing of two-output ufuncs (modf has no symbolic meaning: concrete values)
        xc = sp.element(concrete_like(sp) + 0.25)
        r1, r2 = np.modf(xc)
        e1, e2 = np.modf(xc.asarray())
        ctx.fact('modf/no-out', hasattr(r1, 'space') and hasattr(r2, 'space') and type(r1) is type(xc) and
                 np.allclose(r1, e1) and np.allclose(r2, e2))
        for pattern in ('both', 'first', 'second'):
            for ok in ('element', 'ndarray'):
                o1 = sp.element() if ok == 'element' else np.empty(sp.shape, dtype=sp.dtype)
                o2 = sp.element() if ok == 'element' else np.empty(sp.shape, dtype=sp.dtype)
                outs = {'both': (o1, o2), 'first': (o1, None), 'second': (None, o2)}[pattern]
                try:
                    a, b = np.modf(xc, out=outs)
                except Exception as e:
                    ctx.fact('modf/out=%s/%s' % (pattern, ok), False, 'raised %s: %s' % (type(e).__name__, e))
                    continue
                okk = True
                if outs[0] is not None:
                    okk = okk and a is outs[0] and np.allclose(np.asarray(outs[0]), e1)
                else:
                    okk = okk and a is not None and np.allclose(np.asarray(a), e1)
                if outs[1] is not None:
                    okk = okk and b is outs[1] and np.allclose(np.asarray(outs[1]), e2)
                else:
                    okk = okk and b is not None and np.allclose(np.asarray(b), e2)
                ctx.fact('modf/out=%s/%s' % (pattern, ok), okk, 'returned (%r, %r)' % (type(a).__name__,
                                                                                     type(b).__name__))
        # two outputs of different dtypes (frexp: mantissa float, exponent int32): each output carries its own
        for pattern in ('none', 'first'):
            outs = {'none': None, 'first': (sp.element(), None)}[pattern]
            try:
                m, e = np.frexp(xc) if outs is None else np.frexp(xc, out=outs)
            except Exception as ex:
                ctx.fact('frexp/out=%s' % pattern, False, 'raised %s: %s' % (type(ex).__name__, ex))
                continue
            em, ee = np.frexp(xc.asarray())
            ctx.fact('frexp/out=%s/values-and-dtypes' % pattern,
                     np.array_equal(np.asarray(m), em) and np.array_equal(np.asarray(e), ee)
                     and np.dtype(getattr(m.dtype, 'dtype', m.dtype)) == em.dtype
                     and np.dtype(getattr(e.dtype, 'dtype', e.dtype)) == ee.dtype,
                     'dtypes (%s, %s), numpy gives (%s, %s)' % (m.dtype, e.dtype, em.dtype, ee.dtype))
        return
    if kind == 'divmod':
        y = ctx.element(sp, 'y')
        for v in flat(y):
            ctx.assume(v > 0)
        q, r = np.divmod(x, y)
        rq, rr = np.divmod(raw(x), raw(y))
        ctx.fact('divmod/results-in-space', q in sp and r in sp)
        ctx.eq('divmod/quotient', q, rq)
        ctx.eq('divmod/remainder', r, ctx.snapshot(rr) + bump)
        o1, o2 = ctx.garbage(sp, 'oq'), ctx.garbage(sp, 'or_')
        a, b = np.divmod(x, y, out=(o1, o2))
        ctx.fact('divmod/outs-returned', a is o1 and b is o2)
        ctx.eq('divmod/out-quotient', o1, rq)
        ctx.eq('divmod/out-remainder', o2, rr)
        a, b = np.divmod(x, y, out=(o1, None))
        ctx.fact('divmod/partial-out', a is o1 and b is not None and b in sp)
        ctx.eq('divmod/partial-out-remainder', b, rr)
        return
    raise ValueError(kind)
