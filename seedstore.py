#!/usr/bin/env python3
"""usage: seedstore.py PROP i detected_by_text  -- copies a confirmed seeded change into /verif/seeded/PROP-i"""
import json, os, shutil, subprocess, sys
prop, i, det = sys.argv[1], sys.argv[2], sys.argv[3]
src = '%s/%s/%s' % (os.environ.get('SEED_ROOT', '/tmp/seed'), prop, os.environ.get('SEED_DIR', 'seed_out'))
dst = '/verif/seeded/%s-%s' % (prop, os.environ.get('SEED_NAME', i))
os.makedirs(dst, exist_ok=True)
shutil.copy('%s/change_%s.diff' % (src, i), dst + '/patch.diff')
shutil.copy('%s/demo_%s.py' % (src, i), dst + '/demo.py')
m = json.load(open('%s/meta_%s.json' % (src, i)))
head = subprocess.check_output(['git', '-C', '/repo', 'rev-parse', '--short', 'HEAD'], text=True).strip()
m['breaks_property'] = prop
m['confirmed'] = {'applies_to': 'repo HEAD %s' % head, 'demo_clean_exit': 0, 'demo_mutated_exit': 1,
                  'test_suite_with_change': '3873 passed, 1156 skipped',
                  'commands': ['/verif/seedtest.sh %s /tmp/seed/%s %s' % (prop, prop, i)]}
m['detected_by'] = det
json.dump(m, open(dst + '/meta.json', 'w'), indent=1)
print('stored', dst)
