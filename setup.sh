#!/bin/bash
# MANIFEST.setup_cmd: build the overlay venv offline (idempotent).
# /verif/.venv = /venv's interpreter + /venv's site-packages (numpy, scipy, ...)
#                + z3-solver, cvc5, crosshair-tool from the offline wheelhouse.
set -e
cd "$(dirname "$0")"
V=/verif/.venv
WH=/opt/veriftools/wheels
if [ ! -x "$V/bin/python" ] || ! "$V/bin/python" -c "import z3, numpy, scipy" 2>/dev/null; then
    rm -rf "$V"
    /venv/bin/python -m venv "$V"
    SP=$("$V/bin/python" -c "import sysconfig; print(sysconfig.get_paths()['purelib'])")
    echo "import site; site.addsitedir('/venv/lib/python3.12/site-packages')" > "$SP/overlay.pth"
    # --no-deps: never let the wheelhouse's newer numpy/scipy shadow the repository's pinned ones
    PIP_NO_INDEX=1 "$V/bin/pip" install -q --no-index --no-deps --find-links "$WH" \
        z3-solver cvc5 crosshair-tool typing_inspect typeshed_client mypy_extensions \
        typing_extensions importlib_metadata zipp packaging pygls lsprotocol cattrs attrs >/dev/null
fi
"$V/bin/python" -c "import z3, numpy, scipy; print('overlay ok: z3', z3.get_version_string(), 'numpy', numpy.__version__)"
