#!/bin/bash
# usage: seedtest.sh <PROP> <worktree> <i> [tier] [--skip-tests]
# Confirms a seeded change (demo fails with it / passes without, test suite passes) and runs ./check against it.
P=$1; WT=$2; I=$3; TIER=${4:-quick}; SKIP=$5
cd $WT && git checkout -q -- odl && 
/venv/bin/python ${SEED_DIR:-seed_out}/demo_$I.py >/dev/null 2>&1; echo "demo clean exit=$?"
git apply ${SEED_DIR:-seed_out}/change_$I.diff || { echo "APPLY FAILED"; exit 9; }
/venv/bin/python ${SEED_DIR:-seed_out}/demo_$I.py >/dev/null 2>&1; echo "demo mutated exit=$?"
if [ "$SKIP" != "--skip-tests" ]; then
  /venv/bin/python -m pytest -q -p no:cacheprovider --timeout=900 -W ignore 2>&1 | grep -E "^[0-9]+ passed|failed|error" | tail -2
fi
cd /verif && VERIF_REPO=$WT ./check $P --tier $TIER --no-evidence 2>&1 | grep -E "^VIOLATION|^  config|^MACHINERY|quick:|thorough:" | cut -c1-260 | head -8
cd $WT && git checkout -q -- odl
