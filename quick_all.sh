#!/bin/bash
# runs every quick command (writes evidence); prints summary lines
cd /verif
for p in ${@:-C01 C02 C03 C04 C05 C06 C07 C08 C09 C10 C11 C12 C13 C14 C15 C16 C17 C18 C19 C20}; do
  ./check $p --tier quick 2>&1 | grep -E "quick:|^VIOLATION|MACHINERY" | cut -c1-260
  echo "   $p exit=${PIPESTATUS[0]}"
done
