#!/bin/bash
# runs every thorough command once, sequentially; prints the summary line and wall time of each
cd /verif
for p in ${@:-C03 C05 C10 C13 C15 C16 C17 C18 C20 C09 C14 C19 C12 C04 C06 C08 C02 C11 C07 C01}; do
  t0=$(date +%s)
  VERIF_JOBS=${VERIF_JOBS:-8} ./check $p --tier thorough --no-evidence 2>&1 | grep -E "thorough:|^VIOLATION|MACHINERY|INCONCLUSIVE" | cut -c1-260 | tail -6
  echo "   $p wall=$(( $(date +%s) - t0 ))s"
done
