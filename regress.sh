#!/bin/bash
# run all claimed quick checks sequentially, print the summary line of each
cd /verif
for p in ${@:-C01 C02 C03 C04 C05 C06 C07 C08 C09 C10 C11 C12 C13 C14 C15 C16 C17 C20}; do
  ./check $p --no-evidence 2>&1 | grep -E "^C[0-9]+ quick|VIOLATION|MACHINERY|INCONCLUSIVE" | cut -c1-300
done
